#!/usr/bin/env python3
import json, sys, glob, jsonschema
m = json.load(open('/verif/MANIFEST.json'))
jsonschema.validate(m, json.load(open('/root/.vp/MANIFEST.schema.json')))
es = json.load(open('/root/.vp/EVIDENCE.schema.json'))
for c in m['checks']:
    try:
        jsonschema.validate(json.load(open('/verif/' + c['evidence_file'])), es)
    except Exception as e:
        print('EVIDENCE INVALID', c['property_id'], str(e)[:300])
print('manifest ok; claimed', len(m['checks']), 'not_applicable', len(m.get('not_applicable', [])))
