#!/usr/bin/env python3
"""Confirm a seeded change and run checks against it.

  seedtest.py confirm <seeded/ID>            scratch worktree: patch applies, builds (+tags verif), suite passes,
                                             demo fails with the patch and passes without
  seedtest.py detect <seeded/ID> [props...]  run ./check <prop> quick against a scratch worktree with the patch
                                             (VERIF_REPO); default props = meta.property
Results are merged into <seeded/ID>/meta.json.  Scratch worktrees live under /tmp/seedwt-* and are removed.
"""
import json, os, subprocess, sys, shutil, tempfile, re

ROOT = os.path.dirname(os.path.dirname(os.path.abspath(__file__)))
ENV = dict(os.environ, GOFLAGS="-mod=mod", GOPROXY="off", GOSUMDB="off", GOTOOLCHAIN="local")


def sh(cmd, cwd=None, env=None, timeout=3600):
    r = subprocess.run(cmd, cwd=cwd, env=env or ENV, shell=isinstance(cmd, str), stdout=subprocess.PIPE, stderr=subprocess.STDOUT, text=True, errors="replace", timeout=timeout)
    return r.returncode, r.stdout


def worktree():
    d = tempfile.mkdtemp(prefix="seedwt-", dir="/tmp")
    os.rmdir(d)
    rc, out = sh(["git", "-C", "/repo", "worktree", "add", "-q", "--detach", d, "HEAD"])
    if rc != 0:
        raise SystemExit("worktree: " + out)
    return d


def drop(d):
    sh(["git", "-C", "/repo", "worktree", "remove", "--force", d])
    shutil.rmtree(d, ignore_errors=True)


def apply(d, patch):
    rc, out = sh(["git", "-C", d, "apply", "--whitespace=nowarn", patch])
    if rc != 0:
        rc, out2 = sh(["git", "-C", d, "apply", "-3", "--whitespace=nowarn", patch])
        out += out2
    return rc, out


def load_meta(sd):
    with open(os.path.join(sd, "meta.json")) as f:
        return json.load(f)


def save_meta(sd, m):
    with open(os.path.join(sd, "meta.json"), "w") as f:
        json.dump(m, f, indent=1)


def confirm(sd):
    m = load_meta(sd)
    d = worktree()
    res = {}
    try:
        demo = os.path.join(sd, "demo_test.go")
        # without the patch: demo passes
        shutil.copy(demo, os.path.join(d, "test", "zz_demo_test.go"))
        rc, out = sh("go test -vet=off -count=1 ./test -run 'Demo|demo' 2>&1 | tail -5", cwd=d)
        rc, out = sh(["go", "test", "-vet=off", "-count=1", "./test", "-run", "Demo|demo|ZZ"], cwd=d)
        res["demo_passes_without_patch"] = (rc == 0)
        os.remove(os.path.join(d, "test", "zz_demo_test.go"))
        rc, out = apply(d, os.path.join(sd, "patch.diff"))
        res["patch_applies"] = (rc == 0)
        if rc != 0:
            res["apply_output"] = out[-800:]
        else:
            rc1, o1 = sh("go build ./... && go build -tags verif ./...", cwd=d)
            res["builds"] = (rc1 == 0)
            rc2, o2 = sh(["go", "test", "-vet=off", "-count=1", "./..."], cwd=d)
            res["suite_passes_with_patch"] = (rc2 == 0)
            if rc2 != 0:
                res["suite_output"] = o2[-1500:]
            shutil.copy(demo, os.path.join(d, "test", "zz_demo_test.go"))
            rc3, o3 = sh(["go", "test", "-vet=off", "-count=1", "./test", "-run", "Demo|demo|ZZ"], cwd=d)
            res["demo_fails_with_patch"] = (rc3 != 0)
            res["demo_output_with_patch"] = o3[-600:]
    finally:
        drop(d)
    m["confirmed"] = res
    m["confirmed_at_repo_commit"] = sh(["git", "-C", "/repo", "rev-parse", "--short", "HEAD"])[1].strip()
    save_meta(sd, m)
    ok = res.get("demo_passes_without_patch") and res.get("patch_applies") and res.get("builds") and res.get("suite_passes_with_patch") and res.get("demo_fails_with_patch")
    print(os.path.basename(sd), "CONFIRMED" if ok else "NOT-CONFIRMED", json.dumps({k: v for k, v in res.items() if isinstance(v, bool)}))
    return 0 if ok else 1


def detect(sd, props, tier="quick"):
    m = load_meta(sd)
    if not props:
        props = [m["property"]]
    d = worktree()
    det = m.get("detected_by", {})
    try:
        rc, out = apply(d, os.path.join(sd, "patch.diff"))
        if rc != 0:
            print("patch does not apply:", out[-500:])
            return 2
        for p in props:
            env = dict(ENV, VERIF_REPO=d)
            rc, out = sh([os.path.join(ROOT, "check"), p, tier], cwd=ROOT, env=env, timeout=7200)
            viol = re.findall(r"^VIOLATION .*$", out, re.M)
            sigs = re.findall(r"^\s+(\S+) :: ", out, re.M)
            det[p] = {"tier": tier, "exit": rc, "violations": len(viol), "first_signatures": sorted(set(sigs))[:4]}
            print(os.path.basename(sd), p, tier, "exit", rc, "violations", len(viol), sorted(set(sigs))[:3])
            if rc not in (0, 1):
                print(out[-1500:])
    finally:
        drop(d)
    m["detected_by"] = det
    save_meta(sd, m)
    return 0


if __name__ == "__main__":
    a = sys.argv[1:]
    if a[0] == "confirm":
        sys.exit(confirm(os.path.abspath(a[1])))
    if a[0] == "detect":
        tier = "quick"
        rest = a[2:]
        if rest and rest[0] in ("--thorough",):
            tier, rest = "thorough", rest[1:]
        sys.exit(detect(os.path.abspath(a[1]), rest, tier))
