#!/usr/bin/env python3
import json,sys,base64,glob
for f in sys.argv[1:]:
    d=json.load(open(f))
    print("=====",f, d.get("kind"))
    v=d.get("violation") or {}
    print("SIG:",v.get("sig"))
    print("DETAIL:",(v.get("detail") or "")[:1500])
    for k in ("project","project2"):
        p=d.get(k)
        if not p: continue
        print("--",k,"root=",p.get("root"),"banned=",p.get("banned"),"noroot=",p.get("no_root"),"via=",p.get("via_path"))
        for n,b in (p.get("files") or {}).items():
            print("  [%s] %r"%(n, base64.b64decode(b or "")[:1200]))
    if d.get("params"): print("params:",json.dumps(d["params"])[:800])
    if d.get("ops"): print("ops:",d["ops"])
    if d.get("expect"): print("expect:",json.dumps(d["expect"])[:1500])
