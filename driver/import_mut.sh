#!/bin/bash
# import_mut.sh <Cxx> [srcroot=/tmp/mut2]: copy the agent's out/<name>/ to seeded/<Cxx>-<name>/, confirm, detect (quick)
set -u
P=$1; SRC=${2:-/tmp/mut2}
cd "$(dirname "$0")/.."
export GOFLAGS=-mod=mod GOPROXY=off GOSUMDB=off GOTOOLCHAIN=local
OUT=$SRC/$P/out; [ -d "$SRC/$P-out" ] && OUT=$SRC/$P-out
for d in $OUT/*/; do
  [ -f "$d/patch.diff" ] || continue
  n=$(basename "$d"); t=seeded/$P-$n
  [ -d "$t" ] && { echo "exists $t"; continue; }
  mkdir -p "$t"; cp "$d/patch.diff" "$d/demo_test.go" "$d/meta.json" "$t/"
  python3 - "$t/meta.json" "$P" <<'PY'
import json,sys
m=json.load(open(sys.argv[1])); m['property']=sys.argv[2]; json.dump(m,open(sys.argv[1],'w'),indent=1)
PY
  echo "== $t"
  python3 driver/seedtest.py confirm "$t" 2>&1 | tail -3
  python3 driver/seedtest.py detect "$t" 2>&1 | tail -4
done
