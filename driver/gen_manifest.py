#!/usr/bin/env python3
"""Writes /verif/MANIFEST.json from driver/claims.json (one entry per property: claimed or not, texts)."""
import json, os, subprocess
ROOT = os.path.dirname(os.path.dirname(os.path.abspath(__file__)))
claims = json.load(open(os.path.join(ROOT, "driver", "claims.json")))
props = [json.loads(l)["id"] for l in open(os.path.join(ROOT, "properties.jsonl"))]
hooks_commits = claims.get("_hook_commits", [])
m = {
    "version": 1,
    "setup_cmd": "./check --setup",
    "hooks": {
        "guard": "verif",
        "enable": "go build tag: go test -c -tags verif (the harness module /verif replaces github.com/jsightapi/jsight-api-core with /repo)",
        "baseline_off_cmd": "cd /repo && GOFLAGS=-mod=mod go test -vet=off -count=1 -timeout 25m ./...",
        "source_commits": hooks_commits,
        "add_only": True,
    },
    "engines": [
        {"name": "props", "path": "props/", "serves_properties": [p for p in props if claims.get(p, {}).get("claimed")],
         "kind_free_text": "Go test binary: rapid v1.3.0 property tests and state machines, bounded-exhaustive enumerations, native go fuzz targets; oracles in props/ and vlib/"},
        {"name": "driver", "path": "driver/check.py", "serves_properties": [p for p in props if claims.get(p, {}).get("claimed")],
         "kind_free_text": "builds the test binary from /repo's working tree with -tags verif, runs replay tier, known-finding probes, sharded search tier, merges evidence"},
    ],
    "checks": [],
    "not_applicable": [],
    "notes": claims.get("_notes", ""),
}
for p in props:
    c = claims.get(p, {})
    if not c.get("claimed"):
        m["not_applicable"].append({"property_id": p, "reason": c.get("reason", "check not built yet (work in progress); see DESIGN.md")})
        continue
    m["checks"].append({
        "property_id": p,
        "quick_cmd": "./check %s quick" % p,
        "thorough_cmd": "./check %s thorough" % p,
        "evidence_file": "evidence/%s.json" % p,
        "replay_cmd_template": "./check %s --replay {path}" % p,
        "engine": "props",
        "level_claimed": {"category": "exploration", "text": c["level_text"], "design_ref": "DESIGN.md §3 " + p},
        "level_note": c["level_note"],
        "technique": c["technique"],
    })
json.dump(m, open(os.path.join(ROOT, "MANIFEST.json"), "w"), indent=1)
print("claimed:", [c["property_id"] for c in m["checks"]])
