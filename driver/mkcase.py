#!/usr/bin/env python3
"""mkcase.py <out.json> <property> <kind> <note> [--via] [--noroot] [--ban X,Y] [--params JSON] [--ops a,b] name=content|name=@file ...
content may use \\n \\r \\t \\x00 escapes."""
import sys, json, base64, codecs
out, prop, kind, note = sys.argv[1:5]
case = {"property": prop, "kind": kind, "note": note, "project": {"root": None, "files": {}}}
args = sys.argv[5:]
i = 0
while i < len(args):
    a = args[i]
    if a == "--via": case["project"]["via_path"] = True
    elif a == "--noroot": case["project"]["no_root"] = True
    elif a == "--ban": i += 1; case["project"]["banned"] = args[i].split(",")
    elif a == "--params": i += 1; case["params"] = json.loads(args[i])
    elif a == "--ops": i += 1; case["ops"] = args[i].split(",")
    elif a == "--dirs": i += 1; case["project"]["dirs"] = args[i].split(",")
    else:
        n, c = a.split("=", 1)
        if c.startswith("@"):
            data = open(c[1:], "rb").read()
        else:
            data = codecs.escape_decode(c.encode())[0]
        if case["project"]["root"] is None: case["project"]["root"] = n
        case["project"]["files"][n] = base64.b64encode(data).decode()
    i += 1
json.dump(case, open(out, "w"), indent=1)
