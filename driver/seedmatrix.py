#!/usr/bin/env python3
"""seedmatrix.py [seeds...]: run every seeded change against the quick tier of its own property at the given VERIF_SEED
values (default 1 2 3), 4 at a time, and write seeded/matrix.json (measured: exit code, number of VIOLATION lines,
first signatures).  Uses scratch worktrees under /tmp (removed)."""
import json, os, subprocess, sys, glob, re
from concurrent.futures import ThreadPoolExecutor
ROOT = os.path.dirname(os.path.dirname(os.path.abspath(__file__)))
seeds = sys.argv[1:] or ["1", "2", "3"]
dirs = sorted(glob.glob(os.path.join(ROOT, "seeded", "*", "")))
def one(args):
    d, sd = args
    env = dict(os.environ, VERIF_SEED=sd, GOFLAGS="-mod=mod", GOPROXY="off", GOSUMDB="off", GOTOOLCHAIN="local")
    r = subprocess.run(["python3", os.path.join(ROOT, "driver", "seedtest.py"), "detect", d], env=env, stdout=subprocess.PIPE, stderr=subprocess.STDOUT, text=True, errors="replace")
    last = r.stdout.strip().splitlines()[-1] if r.stdout.strip() else ""
    m = re.search(r"exit (\d+) violations (\d+) (\[.*\])", last)
    return os.path.basename(d.rstrip("/")), sd, (dict(exit=int(m.group(1)), violations=int(m.group(2)), signatures=m.group(3)) if m else dict(error=last[-200:]))
out = {}
with ThreadPoolExecutor(int(os.environ.get("SEEDMATRIX_JOBS", "4"))) as ex:
    for name, sd, res in ex.map(one, [(d, sd) for d in dirs for sd in seeds]):
        out.setdefault(name, {})[sd] = res
        print(name, sd, res, flush=True)
repo = subprocess.run(["git", "-C", "/repo", "rev-parse", "--short", "HEAD"], stdout=subprocess.PIPE, text=True).stdout.strip()
json.dump({"repo_commit": repo, "seeds": seeds, "results": out}, open(os.path.join(ROOT, "seeded", "matrix.json"), "w"), indent=1, sort_keys=True)
