#!/usr/bin/env python3
"""Driver of the property checks.

  ./check Cxx quick|thorough        run the check of one property
  ./check Cxx --replay <file>       run one replay file through the plain oracle
  ./check all quick|thorough        every claimed property, sequentially
  ./check --setup                   build the harness once (MANIFEST.setup_cmd)

Exit 0: the property held on everything explored (KNOWN-FINDING lines may be printed).
Exit 1: a violation, with a line  VIOLATION property=<id> replay=<path>.
Exit 2: infrastructure problem or inconclusive (build failure, deadline, generator health) - never a violation.
"""
import hashlib
import json
import os
import re
import shutil
import subprocess
import sys
import tempfile
import time

ROOT = os.path.dirname(os.path.dirname(os.path.abspath(__file__)))
REPO = os.environ.get("VERIF_REPO", "/repo")
NCPU = os.cpu_count() or 4

# per property: test regexp, shards per tier, deadline seconds per tier, race build, level category
PROPS = {
    "C01": dict(run="^TestC01$", shards=(4, 16), deadline=(300, 2400)),
    "C02": dict(run="^TestC02$", shards=(4, 16), deadline=(300, 1800)),
    "C03": dict(run="^TestC03$", shards=(4, 16), deadline=(300, 1800)),
    "C04": dict(run="^TestC04$", shards=(4, 16), deadline=(300, 1800)),
    "C05": dict(run="^TestC05$", shards=(4, 16), deadline=(300, 1800)),
    "C06": dict(run="^TestC06$", shards=(4, 16), deadline=(300, 1800)),
    "C07": dict(run="^TestC07$", shards=(4, 16), deadline=(300, 1800)),
    "C08": dict(run="^TestC08$", shards=(4, 16), deadline=(300, 1800)),
    "C09": dict(run="^TestC09$", shards=(4, 16), deadline=(300, 1800)),
    "C10": dict(run="^TestC10$", shards=(4, 16), deadline=(300, 1800)),
    "C11": dict(run="^TestC11$", shards=(4, 16), deadline=(300, 1800)),
    "C14": dict(run="^TestC14$", shards=(4, 16), deadline=(300, 1800)),
    "C18": dict(run="^TestC18$", shards=(4, 16), deadline=(600, 2400), race=True),
    "C19": dict(run="^TestC19$", shards=(4, 16), deadline=(300, 1800)),
    "C12": dict(run="^TestC12$", shards=(4, 16), deadline=(300, 1800)),
    "C15": dict(run="^TestC15$", shards=(4, 16), deadline=(300, 1800)),
    "C16": dict(run="^TestC16$", shards=(4, 16), deadline=(300, 1800)),
    "C17": dict(run="^TestC17$", shards=(4, 16), deadline=(300, 1800)),
    "C13": dict(run="^TestC13$", shards=(1, 4), deadline=(120, 900)),
}

DEFAULTS = dict(shards=(4, 16), deadline=(300, 1800), race=False, fuzz=None)

# native fuzz campaigns (thorough tier only): target, seconds
FUZZ = {"C01": ("FuzzC01", 90), "C04": ("FuzzC04", 60), "C05": ("FuzzC05", 45), "C07": ("FuzzC07", 45), "C12": ("FuzzC12", 60),
        "C16": ("FuzzC16", 45), "C17": ("FuzzC17", 60)}


def run_fuzz(prop, binp, out_dir, exclude, seed, tier):
    """Runs the native fuzz campaign of a property in a scratch directory; returns (failure files, executions note)."""
    if prop not in FUZZ or tier != "thorough":
        return [], None
    target, secs = FUZZ[prop]
    secs = max(5, int(secs * float(os.environ.get("VERIF_BUDGET", "1"))))
    wd = os.path.join(out_dir, "fuzz")
    os.makedirs(os.path.join(wd, "cache"), exist_ok=True)
    e = env_base()
    e.update(VERIF_TIER=tier, VERIF_SEED=seed, VERIF_SHARD="99", VERIF_SHARDS="1", VERIF_OUT=out_dir, VERIF_MODE="fuzz",
             VERIF_EXCLUDE=",".join(exclude), VERIF_TMP=os.path.join(out_dir, "tmp"))
    cmd = [binp, "-test.run", "^$", "-test.fuzz", "^" + target + "$", "-test.fuzztime", "%ds" % secs,
           "-test.fuzzcachedir", os.path.join(wd, "cache"), "-test.timeout", "0"]
    try:
        r = subprocess.run(cmd, cwd=wd, env=e, stdout=subprocess.PIPE, stderr=subprocess.STDOUT, text=True, errors="replace", timeout=secs + 300)
        out = r.stdout
    except subprocess.TimeoutExpired as ex:
        return [], "fuzz campaign did not finish"
    m = re.findall(r"execs: (\d+)", out)
    note = "native fuzz %s %ds: %s execs" % (target, secs, m[-1] if m else "?")
    fails = sorted(f for f in os.listdir(out_dir) if f.startswith("fail-") and f.endswith("-99.json"))
    if r.returncode != 0 and not fails:
        note += "; fuzz process exited %d without a failure file: %s" % (r.returncode, out[-600:])
    return fails, note


def env_base():
    e = dict(os.environ)
    e.update(GOFLAGS="-mod=mod", GOPROXY="off", GOSUMDB="off", GOTOOLCHAIN="local", VERIF_ROOT=ROOT)
    return e


def log(*a):
    print(*a, flush=True)


def build(prop, race=False):
    """Build the test binary from /repo's current working tree (replace directive) with the verif tag."""
    tag = "" if REPO == "/repo" else "-" + hashlib.sha1(REPO.encode()).hexdigest()[:8]
    out_dir = os.path.join(ROOT, ".build", prop + ("-race" if race else "") + tag)
    os.makedirs(out_dir, exist_ok=True)
    binp = os.path.join(out_dir, "props.test")
    cmd = ["go", "test", "-c", "-tags", "verif", "-vet=off", "-o", binp]
    if race:
        cmd.append("-race")
    if REPO != "/repo":
        # self-test against a scratch copy of the repository: same harness, different replace target
        with open(os.path.join(ROOT, "go.mod")) as f:
            gm = f.read().replace("=> /repo", "=> " + REPO)
        mf = os.path.join(out_dir, "go.mod")
        with open(mf, "w") as f:
            f.write(gm)
        shutil.copy(os.path.join(ROOT, "go.sum"), os.path.join(out_dir, "go.sum"))
        cmd.append("-modfile=" + mf)
    cmd.append("./props")
    t0 = time.time()
    r = subprocess.run(cmd, cwd=ROOT, env=env_base(), stdout=subprocess.PIPE, stderr=subprocess.STDOUT, text=True)
    if r.returncode != 0:
        log("BUILD-FAILED (exit 2):\n" + r.stdout[-4000:])
        sys.exit(2)
    # -mod=mod may touch go.sum of the harness only; /repo is never written
    return binp, time.time() - t0


def load_findings():
    p = os.path.join(ROOT, "known_findings.json")
    if not os.path.exists(p):
        return []
    with open(p) as f:
        return json.load(f)


def run_replays(binp, files, out_dir, extra_env=None, timeout=600):
    """Returns {file: (status, sig, detail)}."""
    res = {}
    if not files:
        return res
    e = env_base()
    e.update(VERIF_MODE="replay", VERIF_REPLAY_FILES="\n".join(files), VERIF_OUT=out_dir, VERIF_TMP=os.path.join(out_dir, "tmp"))
    if extra_env:
        e.update(extra_env)
    try:
        r = subprocess.run([binp, "-test.run", "^TestReplay$", "-test.timeout", "0"], cwd=os.path.join(ROOT, "props"), env=e,
                           stdout=subprocess.PIPE, stderr=subprocess.STDOUT, text=True, timeout=timeout)
        out = r.stdout
    except subprocess.TimeoutExpired as ex:
        out = (ex.stdout or b"").decode("utf-8", "replace") if isinstance(ex.stdout, bytes) else (ex.stdout or "")
        out += "\nREPLAY-TIMEOUT\n"
    cur = None
    for line in out.splitlines():
        m = re.match(r"^REPLAY (\S+) (PASS|FAIL|ERROR)\s*(.*)$", line)
        if m:
            cur = m.group(1)
            res[cur] = [m.group(2), m.group(3), ""]
        elif line.startswith("REPLAY-DETAIL ") and cur:
            res[cur][2] = line[len("REPLAY-DETAIL "):]
    for f in files:
        if f not in res:
            # the process died before printing this file's line: a fatal crash inside an in-process oracle
            res[f] = ["ERROR", "replay process did not report this file", out[-1500:]]
    return res


def merge_evidence(prop, tier, seed, out_dir, wall, nviol, level="exploration", shards=1):
    ev = dict(evaluations=0, keys=set(), classes={}, excluded={}, samples=[], notes=[], exhaustive={}, extra={}, replayed=0)
    for fn in sorted(os.listdir(out_dir)):
        if not (fn.startswith("shard-" + prop + "-") and fn.endswith(".json")):
            continue
        try:
            with open(os.path.join(out_dir, fn)) as f:
                s = json.load(f)
        except (OSError, ValueError) as e:
            ev["notes"].append("unreadable shard evidence %s (%s): its counts are missing" % (fn, type(e).__name__))
            continue
        ev["evaluations"] += s.get("evaluations", 0)
        ev["keys"].update(s.get("nontrivial_keys") or [])
        for k, v in (s.get("classes") or {}).items():
            ev["classes"][k] = ev["classes"].get(k, 0) + v
        for k, v in (s.get("excluded") or {}).items():
            ev["excluded"][k] = ev["excluded"].get(k, 0) + v
        for smp in s.get("samples") or []:
            if len(ev["samples"]) < 14 and sum(1 for x in ev["samples"] if x.get("kind") == smp.get("kind")) < 2:
                ev["samples"].append(smp)
        for n in s.get("notes") or []:
            if len(ev["notes"]) < 40 and n not in ev["notes"]:
                ev["notes"].append(n)
        for k, v in (s.get("exhaustive") or {}).items():
            ev["exhaustive"][k] = ev["exhaustive"].get(k, True) and v
        for k, v in (s.get("extra") or {}).items():
            if isinstance(v, (int, float)) and isinstance(ev["extra"].get(k), (int, float)):
                ev["extra"][k] += v
            else:
                ev["extra"].setdefault(k, v)
        ev["replayed"] += s.get("replayed", 0)
    return ev


RULES = {}


def rule_text(prop):
    p = os.path.join(ROOT, "driver", "rules.json")
    try:
        with open(p) as f:
            return json.load(f).get(prop, {})
    except Exception:
        return {}


def write_evidence(prop, tier, seed, ev, wall, nviol, known_lines, inconclusive=None):
    meta = rule_text(prop)
    cov = dict(
        evaluations=int(ev["evaluations"]),
        distinct_nontrivial=len(ev["keys"]),
        rule=meta.get("rule", "see DESIGN.md section of " + prop),
        samples=ev["samples"],
        classes=dict(sorted(ev["classes"].items())),
        excluded=ev["excluded"],
        replayed=int(ev["replayed"]),
        shards=ev.get("shards", 1),
        known_findings_reported=known_lines,
    )
    if ev["exhaustive"]:
        cov["exhaustive"] = all(ev["exhaustive"].values())
        cov["exhaustive_spaces"] = ev["exhaustive"]
    else:
        cov["exhaustive"] = False
    if ev["notes"]:
        cov["notes"] = ev["notes"]
    if ev["extra"]:
        cov["extra"] = ev["extra"]
    if inconclusive:
        cov["inconclusive"] = inconclusive
    if os.environ.get("VERIF_BUDGET", "1") not in ("1", "1.0", ""):
        cov["budget_scale"] = float(os.environ["VERIF_BUDGET"])  # development knob: case counts were scaled by this factor
    doc = dict(property_id=prop, tier=tier, seed=int(seed), level="exploration", coverage=cov,
               assumptions=meta.get("assumptions", []), wall_s=round(wall, 2), violations=int(nviol))
    evdir = os.environ.get("VERIF_EVIDENCE_DIR") or os.path.join(ROOT, "evidence")
    if REPO != "/repo" and not os.environ.get("VERIF_EVIDENCE_DIR"):
        evdir = os.path.join(ROOT, ".build", "selftest-evidence")
    os.makedirs(evdir, exist_ok=True)
    tmp = os.path.join(evdir, "." + prop + ".json.tmp")
    with open(tmp, "w") as f:
        json.dump(doc, f, indent=1, sort_keys=False, default=str)
    os.replace(tmp, os.path.join(evdir, prop + ".json"))


def keep_replay(prop, path):
    """Copy a failure file written by a test process to replays/out/ (stable name by content)."""
    with open(path, "rb") as f:
        data = f.read()
    h = hashlib.sha1(data).hexdigest()[:12]
    dst_dir = os.path.join(ROOT, "replays", "out")
    os.makedirs(dst_dir, exist_ok=True)
    dst = os.path.join(dst_dir, "%s-%s.json" % (prop, h))
    with open(dst, "wb") as f:
        f.write(data)
    return dst


def check(prop, tier, replay=None):
    cfg = dict(DEFAULTS)
    cfg.update(PROPS.get(prop, {}))
    if prop not in PROPS:
        log("unknown property " + prop)
        return 2
    seed = os.environ.get("VERIF_SEED", "1")
    try:
        seed = str(int(seed))
    except ValueError:
        seed = "1"
    t0 = time.time()
    ti = 0 if tier == "quick" else 1
    binp, bt = build(prop, cfg.get("race", False))
    out_dir = tempfile.mkdtemp(prefix="verif-%s-" % prop, dir=os.path.join(ROOT, ".build"))
    rc = 0
    violations = []
    known_lines = []
    try:
        if replay:
            res = run_replays(binp, [os.path.abspath(replay)], out_dir)
            st, sig, detail = res[os.path.abspath(replay)]
            log("REPLAY %s: %s %s" % (replay, st, sig))
            if detail:
                log("  " + detail)
            if st == "FAIL":
                log("VIOLATION property=%s replay=%s" % (prop, replay))
                return 1
            return 0 if st == "PASS" else 2

        # 1. replay tier
        rdir = os.path.join(ROOT, "replays", prop)
        rfiles = sorted(os.path.join(rdir, f) for f in os.listdir(rdir)) if os.path.isdir(rdir) else []
        rfiles = [f for f in rfiles if f.endswith(".json")]
        res = run_replays(binp, rfiles, out_dir)
        for f in rfiles:
            st, sig, detail = res[f]
            if st != "PASS":
                log("replay %s: %s %s\n  %s" % (f, st, sig, detail))
                violations.append(f)

        # 2. known-finding probes
        exclude = []
        probe_notes = []
        opens = [f for f in load_findings() if f.get("property") == prop and f.get("status") == "open"]
        probe_files = [os.path.join(ROOT, f["repro"]) for f in opens if f.get("repro")]
        pres = run_replays(binp, probe_files, out_dir)
        for f in opens:
            if not f.get("repro"):
                continue
            st, sig, detail = pres[os.path.join(ROOT, f["repro"])]
            if st == "FAIL" and re.search(f.get("match", "$^"), sig):
                line = "KNOWN-FINDING: property=%s %s %s" % (prop, f["id"], f["title"])
                log(line)
                known_lines.append(line)
                exclude.append(f["id"])
            elif st == "FAIL":
                # fails, but differently from what was recorded: that is a new violation
                log("finding %s fails with a different signature: %s\n  %s" % (f["id"], sig, detail))
                violations.append(os.path.join(ROOT, f["repro"]))
            elif st == "ERROR":
                log("finding probe %s could not be evaluated: %s %s" % (f["id"], sig, detail))
                rc = 2
            else:
                # the recorded reproducer passes: no KNOWN-FINDING line and no exclusion, so the defect - if it is still
                # there under another input - is reported as a fresh violation by the search
                log("note: the reproducer of open finding %s no longer fails; its signature is not excluded from the search" % f["id"])
                probe_notes.append("reproducer of open finding %s passes" % f["id"])

        # 3. search tier
        nshards = cfg["shards"][ti]
        if os.environ.get("VERIF_SHARDS"):
            nshards = int(os.environ["VERIF_SHARDS"])
        deadline = cfg["deadline"][ti] * float(os.environ.get("VERIF_DEADLINE_SCALE", "1"))
        procs = []
        for i in range(nshards):
            e = env_base()
            e.update(VERIF_TIER=tier, VERIF_SEED=seed, VERIF_SHARD=str(i), VERIF_SHARDS=str(nshards), VERIF_OUT=out_dir,
                     VERIF_EXCLUDE=",".join(exclude), VERIF_MODE="search", VERIF_TMP=os.path.join(out_dir, "tmp"))
            if cfg.get("race"):
                e["GORACE"] = "halt_on_error=0 log_path=%s" % os.path.join(out_dir, "race-%d" % i)
            logf = open(os.path.join(out_dir, "log-%d.txt" % i), "w")
            p = subprocess.Popen([binp, "-test.run", cfg["run"], "-test.timeout", "0", "-test.v"], cwd=os.path.join(ROOT, "props"), env=e,
                                 stdout=logf, stderr=subprocess.STDOUT)
            procs.append((i, p, logf))
        timed_out = False
        for i, p, logf in procs:
            remaining = deadline - (time.time() - t0)
            try:
                p.wait(timeout=max(1, remaining))
            except subprocess.TimeoutExpired:
                timed_out = True
                p.kill()
                p.wait()
            logf.close()
        fuzz_fails, fuzz_note = run_fuzz(prop, binp, out_dir, exclude, seed, tier) if not timed_out else ([], None)
        fail_files = sorted(f for f in os.listdir(out_dir) if f.startswith("fail-"))
        for i, p, _ in procs:
            if p.returncode != 0:
                with open(os.path.join(out_dir, "log-%d.txt" % i), errors="replace") as f:
                    txt = f.read()
                mine = [f for f in fail_files if f.endswith("-%d.json" % i)]
                if not mine and not timed_out:
                    log("shard %d exited %s without a failure file (harness problem or fatal crash); log tail:\n%s" % (i, p.returncode, txt[-3000:]))
                    rc = 2
                elif mine:
                    m = re.findall(r"VERIF-FAIL[^\n]*\n[^\n]*", txt)
                    if m:
                        log(m[-1])
        for f in fail_files:
            violations.append(keep_replay(prop, os.path.join(out_dir, f)))
        if timed_out and not violations:
            log("deadline of %ds reached with nothing found: inconclusive" % deadline)
            rc = 2

        ev = merge_evidence(prop, tier, seed, out_dir, time.time() - t0, len(violations))
        ev["shards"] = nshards
        if fuzz_note:
            ev["notes"].append(fuzz_note)
        ev["notes"].extend(probe_notes)
        # generator health: required classes
        health = rule_text(prop).get("required_classes", {})
        for cls, floor in health.items():
            if ev["classes"].get(cls, 0) < floor * (1 if tier == "quick" else 1):
                log("generator health: class %s seen %d times (< %d)" % (cls, ev["classes"].get(cls, 0), floor))
                if not violations:
                    rc = 2
        write_evidence(prop, tier, seed, ev, time.time() - t0, len(violations), known_lines,
                       inconclusive=("deadline" if timed_out else None))
        for v in violations:
            rel = os.path.relpath(v, ROOT)
            log("VIOLATION property=%s replay=%s" % (prop, rel))
        if violations:
            return 1
        if rc == 0:
            log("OK property=%s tier=%s seed=%s evaluations=%d distinct_nontrivial=%d wall=%.1fs (build %.1fs)" % (
                prop, tier, seed, ev["evaluations"], len(ev["keys"]), time.time() - t0, bt))
        return rc
    finally:
        shutil.rmtree(out_dir, ignore_errors=True)
        if REPO != "/repo":
            # a self-test build against a scratch worktree: its binary is not needed again (disk space)
            for race in (False, True):
                tag = "-" + hashlib.sha1(REPO.encode()).hexdigest()[:8]
                shutil.rmtree(os.path.join(ROOT, ".build", prop + ("-race" if race else "") + tag), ignore_errors=True)


def main():
    a = sys.argv[1:]
    if not a:
        print(__doc__)
        return 2
    if a[0] == "--setup":
        binp, bt = build("setup")
        log("setup: harness built in %.1fs" % bt)
        return 0
    prop = a[0]
    if len(a) >= 3 and a[1] == "--replay":
        return check(prop, "quick", replay=a[2])
    tier = a[1] if len(a) > 1 else os.environ.get("VERIF_TIER", "quick")
    if tier not in ("quick", "thorough"):
        print("tier must be quick or thorough")
        return 2
    if prop == "all":
        worst = 0
        for p in sorted(PROPS):
            r = check(p, tier)
            worst = max(worst, r) if r != 1 else 1
        return worst
    return check(prop, tier)


if __name__ == "__main__":
    sys.exit(main())
