//go:build !race

package props

const raceEnabled = false
