package props

import (
	"bytes"
	"fmt"
	"sort"
	"strings"
	"testing"

	"pgregory.net/rapid"

	"verif/mdl"
	"verif/vlib"
)

// C15 – declaration order of independent top-level blocks does not matter.

// sectionDiff compares two catalogs per section as key -> value maps; interaction lists inside tags are compared as multisets.
func sectionDiff(a, b *vlib.ON) string {
	for _, sec := range []string{"tags", "servers", "userTypes", "userEnums", "interactions"} {
		sa, sb := a.Get(sec), b.Get(sec)
		if (sa == nil) != (sb == nil) {
			return fmt.Sprintf("section %s present in only one catalog", sec)
		}
		if sa == nil {
			continue
		}
		if len(sa.Keys) != len(sb.Keys) {
			return fmt.Sprintf("section %s has %d entries vs %d", sec, len(sa.Keys), len(sb.Keys))
		}
		for i, k := range sa.Keys {
			vb := sb.Get(k)
			if vb == nil {
				return fmt.Sprintf("%s/%s exists only in the original", sec, k)
			}
			va := sa.Vals[i]
			if sec == "tags" {
				va, vb = sortTagLists(va), sortTagLists(vb)
			}
			if va.Canon(true) != vb.Canon(true) {
				return fmt.Sprintf("%s/%s differs: %s", sec, k, vlib.FirstDiff(va, vb, ""))
			}
		}
	}
	for _, k := range []string{"info", "jsight", "jdocExchangeVersion"} {
		if a.Get(k).Canon(true) != b.Get(k).Canon(true) {
			return k + " differs"
		}
	}
	return ""
}

func sortTagLists(t *vlib.ON) *vlib.ON {
	c := *t
	c.Vals = append([]*vlib.ON(nil), t.Vals...)
	for i, k := range c.Keys {
		if k != "interactionGroups" {
			continue
		}
		g := *c.Vals[i]
		g.Vals = nil
		for _, grp := range c.Vals[i].Vals {
			gc := *grp
			gc.Vals = append([]*vlib.ON(nil), grp.Vals...)
			for j, gk := range gc.Keys {
				if gk == "interactions" {
					l := *gc.Vals[j]
					l.Vals = append([]*vlib.ON(nil), l.Vals...)
					sort.Slice(l.Vals, func(x, y int) bool { return l.Vals[x].Str < l.Vals[y].Str })
					gc.Vals[j] = &l
				}
			}
			g.Vals = append(g.Vals, &gc)
		}
		c.Vals[i] = &g
	}
	return &c
}

func c15Oracle(c *vlib.Case) *vlib.Violation {
	b1 := vlib.Build(c.Project)
	defer b1.Close()
	b2 := vlib.Build(c.Project2)
	defer b2.Close()
	if b1.Out.Crashed() || b2.Out.Crashed() || !b1.Out.OK() {
		return nil
	}
	if !b2.Out.OK() {
		return vlib.V("c15:permutation-rejected:"+errClass(b2.Out.Msg), "the original document is accepted, the permuted one is rejected: %s", b2.Out.Brief())
	}
	j1, e1 := b1.Api.ToJson()
	j2, e2 := b2.Api.ToJson()
	if e1 != nil || e2 != nil {
		if (e1 == nil) != (e2 == nil) {
			return vlib.V("c15:tojson-error", "ToJson: original %v, permuted %v", e1, e2)
		}
		return nil
	}
	a, _ := vlib.ParseOrdered(j1)
	b, _ := vlib.ParseOrdered(j2)
	if hasRegexType(c.Project) {
		a, b = a.StripExamples(), b.StripExamples()
	}
	if d := sectionDiff(a, b); d != "" {
		return vlib.V("c15:entries-differ:"+strings.SplitN(d, "/", 2)[0], "permuting the top-level blocks changes the catalog entries: %s", d)
	}
	// the order inside the sections follows the new text order (model cases carry the expectation)
	if len(c.Expect) > 0 {
		exp, err := vlib.ParseOrdered(c.Expect)
		if err == nil {
			for _, sec := range []string{"tags", "servers", "userTypes", "userEnums", "interactions"} {
				if e, g := exp.Get(sec), b.Get(sec); e != nil && g != nil && strings.Join(e.Keys, "\x00") != strings.Join(g.Keys, "\x00") {
					return vlib.V("c15:section-order:"+sec, "section %s of the permuted document is ordered %v, the text order gives %v", sec, g.Keys, e.Keys)
				}
			}
		}
	}
	return nil
}

func c15Classify(c *vlib.Case) (bool, []string) {
	n := asInt(c.Params["blocks"])
	cls := []string{fmt.Sprintf("blocks-%d", min(n, 8))}
	if c.Params["forward_ref"] == true {
		cls = append(cls, "type-used-before-declaration")
	}
	if c.Params["type_to_type"] == true {
		cls = append(cls, "type-to-type-reference")
	}
	return n >= 3 && c.Params["forward_ref"] == true && c.Params["type_to_type"] == true, cls
}

// typeRefs returns the type names a schema refers to.
func schemaRefs(s *mdl.Schema, acc map[string]bool) {
	if s == nil {
		return
	}
	if s.Ref != "" {
		acc[s.Ref] = true
	}
	for _, o := range s.Or {
		acc[o] = true
	}
	for _, p := range s.Props {
		schemaRefs(p.Val, acc)
	}
	for _, it := range s.Items {
		schemaRefs(it, acc)
	}
}

func blockUses(b *mdl.Block) map[string]bool {
	acc := map[string]bool{}
	body := func(x *mdl.Body) {
		if x == nil {
			return
		}
		if x.Type != "" {
			acc[x.Type] = true
		}
		schemaRefs(x.Schema, acc)
	}
	if b.Type != nil {
		schemaRefs(b.Type.Schema, acc)
	}
	if r := b.Resource; r != nil {
		for _, m := range r.Methods {
			if m.Query != nil {
				schemaRefs(m.Query.Schema, acc)
			}
			if m.Request != nil {
				schemaRefs(m.Request.Headers, acc)
				body(m.Request.Body)
			}
			for _, rs := range m.Responses {
				schemaRefs(rs.Headers, acc)
				body(rs.Body)
			}
		}
		for _, m := range r.RPC {
			schemaRefs(m.Params, acc)
			schemaRefs(m.Result, acc)
		}
	}
	return acc
}

var c15Model = &vlib.Check{
	Prop: "C15", Name: "model-permute", Quick: 2500, Thorough: 200000,
	Oracle: c15Oracle, Classify: c15Classify,
	Gen: func(t *rapid.T) *vlib.Case {
		r := vlib.RapidRnd{T: t}
		doc := mdl.Gen(r)
		if len(doc.Blocks) < 2 {
			return nil
		}
		lay := mdl.RandomLayout(r)
		opts := mdl.TreeOpts{R: r, Plain: true}
		base := mdl.Render(mdl.BuildTree(doc, opts), lay)
		perm := &mdl.Doc{Blocks: append([]*mdl.Block(nil), doc.Blocks...)}
		for i := len(perm.Blocks) - 1; i > 0; i-- {
			j := r.Intn(i + 1)
			perm.Blocks[i], perm.Blocks[j] = perm.Blocks[j], perm.Blocks[i]
		}
		pr := mdl.Render(mdl.BuildTree(perm, opts), lay)
		// facts for the non-triviality rule
		declared := map[string]bool{}
		forward, t2t := false, false
		for _, b := range perm.Blocks {
			uses := blockUses(b)
			for u := range uses {
				if !declared[u] {
					forward = true
				}
			}
			if b.Type != nil {
				if len(uses) > 0 {
					t2t = true
				}
				declared[b.Type.Name] = true
			}
		}
		return &vlib.Case{Project: renderedProject(base), Project2: renderedProject(pr), Expect: []byte(mdl.Expect(perm).Canon(false)),
			Params: map[string]any{"blocks": len(doc.Blocks), "forward_ref": forward, "type_to_type": t2t}}
	},
}

// corpus: accepted MACRO/PASTE-free single-file documents, root blocks permuted textually.
func corpusBlocks(src []byte) (head []byte, blocks [][]byte) {
	if bytes.Contains(src, []byte("MACRO")) || bytes.Contains(src, []byte("PASTE")) || bytes.Contains(src, []byte("INCLUDE")) {
		return nil, nil
	}
	q, _ := corpusSplit(vlib.SingleFile(src), nil)
	if q == nil {
		return nil, nil
	}
	// corpusSplit puts every root block into piece<i>.jst; reuse its cut positions
	head = nil
	for i := 0; ; i++ {
		b, ok := q.Files[fmt.Sprintf("piece%d.jst", i)]
		if !ok {
			break
		}
		blocks = append(blocks, b)
	}
	total := 0
	for _, b := range blocks {
		total += len(b)
	}
	head = src[:len(src)-total]
	return head, blocks
}

var c15Corpus = &vlib.Check{
	Prop: "C15", Name: "corpus-permute", Quick: 1500, Thorough: 100000,
	Oracle: c15Oracle,
	Classify: func(c *vlib.Case) (bool, []string) {
		n := asInt(c.Params["blocks"])
		return n >= 3, []string{fmt.Sprintf("blocks-%d", min(n, 8))}
	},
	Gen: func(t *rapid.T) *vlib.Case {
		r := vlib.RapidRnd{T: t}
		pool := acceptedProjects()
		p := vlib.Pick(r, pool)
		if len(p.Files) != 1 {
			return nil
		}
		src := p.RootBytes()
		head, blocks := corpusBlocks(src)
		if len(blocks) < 2 {
			return nil
		}
		eol := "\n"
		switch vlib.LineConvention(src) {
		case "crlf":
			eol = "\r\n"
		case "cr":
			eol = "\r"
		}
		idx := make([]int, len(blocks))
		for i := range idx {
			idx[i] = i
		}
		for i := len(idx) - 1; i > 0; i-- {
			j := r.Intn(i + 1)
			idx[i], idx[j] = idx[j], idx[i]
		}
		var sb bytes.Buffer
		sb.Write(head)
		for _, i := range idx {
			b := blocks[i]
			sb.Write(b)
			if !bytes.HasSuffix(b, []byte(eol)) {
				sb.WriteString(eol) // the last block of the original may lack the final line break
			}
		}
		return &vlib.Case{Project: p, Project2: vlib.SingleFile(sb.Bytes()), Params: map[string]any{"blocks": len(blocks)}}
	},
}

// macro blocks: explicit-context MACRO definitions forming an acyclic call graph, TYPE blocks and methods that paste
// them; every block is independent of its position (the statement excludes only implicit-context MACROs).
var c15Macros = &vlib.Check{
	Prop: "C15", Name: "macro-blocks-permute", Quick: 1200, Thorough: 100000,
	Oracle: c15Oracle,
	Classify: func(c *vlib.Case) (bool, []string) {
		cls := []string{fmt.Sprintf("macros-%d", asInt(c.Params["macros"]))}
		if c.Params["shared"] == true {
			cls = append(cls, "macro-pasted-by-two-macros")
		}
		if c.Params["callee_after_callers"] == true {
			cls = append(cls, "callee-declared-after-callers")
		}
		b := vlib.Build(c.Project)
		defer b.Close()
		if !b.Out.OK() {
			return false, append(cls, "original-rejected")
		}
		return c.Params["shared"] == true, cls
	},
	Gen: func(t *rapid.T) *vlib.Case {
		r := vlib.RapidRnd{T: t}
		n := 2 + r.Intn(4)
		edges := make([][]int, n)
		indeg := make([]int, n)
		for i := 0; i < n; i++ {
			for j := i + 1; j < n; j++ {
				if vlib.Chance(r, 1, 2) {
					edges[i] = append(edges[i], j)
					indeg[j]++
				}
			}
		}
		shared := false
		for _, d := range indeg {
			if d >= 2 {
				shared = true
			}
		}
		var blocks []string
		for i := 0; i < n; i++ {
			var sb strings.Builder
			fmt.Fprintf(&sb, "MACRO @m%d\n(\n", i)
			if len(edges[i]) == 0 || vlib.Chance(r, 1, 2) {
				fmt.Fprintf(&sb, "  %d @t%d\n", 201+i, i%2)
			}
			for _, j := range edges[i] {
				fmt.Fprintf(&sb, "  PASTE @m%d\n", j)
			}
			sb.WriteString(")\n")
			blocks = append(blocks, sb.String())
		}
		blocks = append(blocks, "TYPE @t0\n  {\"a\": 1}\n", "TYPE @t1\n  [@t0]\n")
		nu := 1 + r.Intn(3)
		for k := 0; k < nu; k++ {
			// every method pastes one macro: a macro reached over two routes would repeat its response code
			blocks = append(blocks, fmt.Sprintf("%s /u%d\n  200 any\n  PASTE @m%d\n", vlib.Pick(r, []string{"GET", "POST", "PUT"}), k, r.Intn(n)))
		}
		perm := func() (string, bool) {
			idx := make([]int, len(blocks))
			for i := range idx {
				idx[i] = i
			}
			for i := len(idx) - 1; i > 0; i-- {
				j := r.Intn(i + 1)
				idx[i], idx[j] = idx[j], idx[i]
			}
			pos := make([]int, len(blocks))
			var sb strings.Builder
			sb.WriteString("JSIGHT 0.3\n\n")
			for at, i := range idx {
				pos[i] = at
				sb.WriteString(blocks[i] + "\n")
			}
			after := false
			for j := 0; j < n; j++ {
				if indeg[j] >= 2 {
					all := true
					for i := 0; i < n; i++ {
						for _, e := range edges[i] {
							if e == j && pos[i] > pos[j] {
								all = false
							}
						}
					}
					if all {
						after = true
					}
				}
			}
			return sb.String(), after
		}
		a, _ := perm()
		b, after := perm()
		return &vlib.Case{Project: vlib.SingleFile([]byte(a)), Project2: vlib.SingleFile([]byte(b)),
			Params: map[string]any{"macros": n, "blocks": len(blocks), "shared": shared, "callee_after_callers": after}}
	},
}

// small documents, all permutations: <= 5 blocks - up to three types that refer to each other (properties, array items,
// or-types, allOf, recursion through optional properties), an ENUM used by a rule, a TAG and a method using them.
func c15SmallBlocks(r vlib.Rnd) []string {
	if vlib.Chance(r, 1, 5) {
		// a chain of reference types (@p0 = @p1 = ... = an object) used where the language demands "an object or a
		// reference to an object" (Headers, Query, Path) or as a body: the demand is checked through the chain, whose links
		// may be declared before or after the method and in any order among themselves
		k := 2 + r.Intn(3)
		var blocks []string
		for i := 0; i < k; i++ {
			if i == k-1 {
				blocks = append(blocks, fmt.Sprintf("TYPE @p%d\n  {\n    \"id\": 1\n  }\n", i))
			} else if vlib.Chance(r, 1, 4) && i+2 < k {
				blocks = append(blocks, fmt.Sprintf("TYPE @p%d\n  @p%d | @p%d\n", i, i+1, i+2))
			} else {
				blocks = append(blocks, fmt.Sprintf("TYPE @p%d\n  @p%d\n", i, i+1))
			}
		}
		use := r.Intn(k) // not always the head of the chain
		switch r.Intn(6) {
		case 0:
			blocks = append(blocks, fmt.Sprintf("GET /h\n  200\n    Headers\n      @p%d\n    Body any\n", use))
		case 1:
			blocks = append(blocks, fmt.Sprintf("POST /h\n  Request\n    Headers\n      @p%d\n    Body any\n  200 any\n", use))
		case 2:
			blocks = append(blocks, fmt.Sprintf("GET /h\n  Query\n    @p%d\n  200 any\n", use))
		case 3:
			blocks = append(blocks, fmt.Sprintf("GET /h/{id}\n  Path\n    @p%d\n  200 any\n", use))
		case 4:
			blocks = append(blocks, fmt.Sprintf("URL /h/{id}\n  Path\n    @p%d\n  POST\n    Request\n      Headers\n        @p%d\n      Body any\n    200 @p%d\n", use, use, r.Intn(k)))
		default:
			blocks = append(blocks, fmt.Sprintf("PUT /h\n  Request @p%d\n  200 @p%d\n", use, r.Intn(k)))
		}
		return blocks
	}
	if vlib.Chance(r, 1, 4) {
		// an URL group with its own Tags and stand-alone methods on the same path (with and without Tags of their own):
		// who gets which tag does not depend on which block is written first
		blocks := []string{"TAG @g\n", "URL /m/{id}\n  Tags @g\n  GET\n    200 any\n", "POST /m/{id}\n  200 any\n"}
		if vlib.Chance(r, 1, 2) {
			blocks = append(blocks, "DELETE /m/{id}\n  Tags @h\n  200 any\n", "TAG @h // second\n")
		} else if vlib.Chance(r, 1, 2) {
			blocks = append(blocks, "PUT /m\n  200 any\n")
		}
		return blocks
	}
	if vlib.Chance(r, 1, 3) {
		// resources on nested paths that share path parameters; each parameter is described by the Path directive of one
		// of them (or by none), with values that need inline types (an `or` rule set), user types or an ENUM: which block
		// is written first does not matter
		paths := []string{"/s/{a}", "/s/{a}/t/{b}", "/s/{a}/t/{b}/u/{c}"}
		params := []string{"a", "b", "c"}
		n := 2 + r.Intn(2)
		vals := []string{"1", "\"s\"", "1 // {or: [{type: \"integer\", min: 0}, {type: \"string\", minLength: 1}]}", "@t | @u", "\"a\" // {enum: @e}", "1 // {type: \"@t\"}", "@t"}
		owner := make([]int, n) // which block describes parameter i (-1: none); only blocks whose path has the parameter
		desc := make([]string, n)
		needT, needE := false, false
		for i := 0; i < n; i++ {
			owner[i] = -1
			if vlib.Chance(r, 3, 4) {
				owner[i] = i + r.Intn(n-i)
				desc[i] = vlib.Pick(r, vals)
				needT = needT || strings.Contains(desc[i], "@t")
				needE = needE || strings.Contains(desc[i], "@e")
			}
		}
		var blocks []string
		for b := 0; b < n; b++ {
			var props []string
			for i := 0; i <= b; i++ {
				if owner[i] == b {
					props = append(props, fmt.Sprintf("      \"%s\": %s", params[i], desc[i]))
				}
			}
			blk := fmt.Sprintf("%s %s\n", vlib.Pick(r, []string{"GET", "PUT"}), paths[b])
			if len(props) > 0 {
				for k := range props {
					if k < len(props)-1 {
						if j := strings.Index(props[k], " //"); j >= 0 {
							props[k] = props[k][:j] + "," + props[k][j:]
						} else {
							props[k] += ","
						}
					}
				}
				blk += "  Path\n    {\n" + strings.Join(props, "\n") + "\n    }\n"
			}
			blocks = append(blocks, blk+"  200 any\n")
		}
		if needT {
			blocks = append(blocks, "TYPE @t\n  1\n\nTYPE @u\n  \"s\"\n")
		}
		if needE && len(blocks) < 5 {
			blocks = append(blocks, "ENUM @e\n  [\"a\", \"b\"]\n")
		} else if needE {
			blocks[len(blocks)-1] += "\nENUM @e\n  [\"a\", \"b\"]\n"
		}
		return blocks
	}
	k := 1 + r.Intn(3)
	useEnum := vlib.Chance(r, 1, 2)
	useTag := vlib.Chance(r, 1, 3)
	var blocks []string
	for i := 0; i < k; i++ {
		var props []string
		head := ""
		if i+1 < k && vlib.Chance(r, 1, 3) {
			head = fmt.Sprintf(" // {allOf: \"@t%d\"}", i+1) // allOf only towards later types: no allOf cycles
		}
		for j := 0; j < k; j++ {
			if !vlib.Chance(r, 1, 2) {
				continue
			}
			// \x00 marks the place of the comma that separates this property from the next one
			switch r.Intn(4) {
			case 0:
				props = append(props, fmt.Sprintf("    \"r%d_%d\": [ // {optional: true}\n      @t%d\n    ]\x00", i, j, j))
			case 1:
				props = append(props, fmt.Sprintf("    \"r%d_%d\": @t%d | @t%d\x00 // {optional: true}", i, j, j, r.Intn(k)))
			default:
				props = append(props, fmt.Sprintf("    \"r%d_%d\": @t%d\x00 // {optional: true}", i, j, j))
			}
		}
		if useEnum && vlib.Chance(r, 1, 2) {
			props = append(props, fmt.Sprintf("    \"e%d\": \"a\"\x00 // {enum: @e}", i))
		}
		if len(props) == 0 || vlib.Chance(r, 1, 2) {
			props = append(props, fmt.Sprintf("    \"own%d\": %d\x00", i, i))
		}
		for n := range props {
			c := ","
			if n == len(props)-1 {
				c = ""
			}
			props[n] = strings.Replace(props[n], "\x00", c, 1)
		}
		blocks = append(blocks, fmt.Sprintf("TYPE @t%d\n  {%s\n%s\n  }\n", i, head, strings.Join(props, "\n")))
	}
	if useEnum {
		blocks = append(blocks, "ENUM @e\n  [\"a\", \"b\"]\n")
	}
	if useTag && len(blocks) < 4 {
		blocks = append(blocks, "TAG @g\n")
	} else {
		useTag = false
	}
	m := fmt.Sprintf("%s /m/{id}\n", vlib.Pick(r, []string{"GET", "POST"}))
	if useTag {
		m += "  Tags @g\n"
	}
	if vlib.Chance(r, 1, 2) {
		if useEnum {
			m += "  Path\n    {\n      \"id\": \"a\" // {enum: @e}\n    }\n"
		} else {
			m += "  Path\n    {\n      \"id\": 1 // {min: 0}\n    }\n"
		}
	}
	m += fmt.Sprintf("  200 @t%d\n", r.Intn(k))
	if vlib.Chance(r, 1, 2) {
		m += fmt.Sprintf("  404 [@t%d]\n", r.Intn(k))
	}
	blocks = append(blocks, m)
	if len(blocks) < 5 && vlib.Chance(r, 1, 3) {
		blocks = append(blocks, "SERVER @s\n  BaseUrl \"https://x.io\"\n")
	}
	return blocks
}

var c15Small = &vlib.Check{
	Prop: "C15", Name: "small-all-permutations", Quick: 140, Thorough: 5000,
	Oracle: c15Oracle,
	Classify: func(c *vlib.Case) (bool, []string) {
		b := vlib.Build(c.Project)
		defer b.Close()
		n := asInt(c.Params["blocks"])
		cls := []string{fmt.Sprintf("blocks-%d", n)}
		if !b.Out.OK() {
			return false, append(cls, "original-rejected", "original-rejected:"+errClass(b.Out.Msg))
		}
		if c.Params["identity"] == true {
			return false, append(cls, "identity")
		}
		return n >= 3, cls
	},
}

func permutations(n int) [][]int {
	var out [][]int
	idx := make([]int, n)
	for i := range idx {
		idx[i] = i
	}
	var rec func(k int)
	rec = func(k int) {
		if k == n {
			out = append(out, append([]int(nil), idx...))
			return
		}
		for i := k; i < n; i++ {
			idx[k], idx[i] = idx[i], idx[k]
			rec(k + 1)
			idx[k], idx[i] = idx[i], idx[k]
		}
	}
	rec(0)
	return out
}

func init() { vlib.Register(c15Model, c15Corpus, c15Macros, c15Small) }

func TestC15(t *testing.T) {
	t.Run("small-all-permutations", func(t *testing.T) {
		// the documents are drawn by rapid, their permutations are enumerated
		var docs [][]string
		gen := &vlib.Check{Prop: "C15", Name: "small-all-permutations", Quick: c15Small.Quick, Thorough: c15Small.Thorough,
			Oracle: func(*vlib.Case) *vlib.Violation { return nil },
			Gen: func(rt *rapid.T) *vlib.Case {
				docs = append(docs, c15SmallBlocks(vlib.RapidRnd{T: rt}))
				return nil
			}}
		gen.Run(t)
		render := func(blocks []string, perm []int) *vlib.Project {
			var sb strings.Builder
			sb.WriteString("JSIGHT 0.3\n\n")
			for _, i := range perm {
				sb.WriteString(blocks[i] + "\n")
			}
			return vlib.SingleFile([]byte(sb.String()))
		}
		di, pi := 0, 0
		var perms [][]int
		done := c15Small.RunEnum(t, func() *vlib.Case {
			for di < len(docs) {
				if perms == nil {
					perms = permutations(len(docs[di]))
				}
				if pi >= len(perms) {
					di, pi, perms = di+1, 0, nil
					continue
				}
				p := perms[pi]
				pi++
				return &vlib.Case{Project: render(docs[di], perms[0]), Project2: render(docs[di], p),
					Params: map[string]any{"blocks": len(docs[di]), "identity": pi == 1}}
			}
			return nil
		})
		if done {
			vlib.Ev("C15").Exhaustive("all permutations of the blocks of every generated small document (<= 5 blocks)", true)
		}
		vlib.Ev("C15").Extra("small_documents_x_all_permutations", len(docs))
	})
	t.Run("macro-blocks-permute", c15Macros.Run)
	t.Run("model-permute", c15Model.Run)
	t.Run("corpus-permute", c15Corpus.Run)
}
