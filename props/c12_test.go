package props

import (
	"regexp"
	"strings"
	"testing"

	"github.com/jsightapi/jsight-schema-core/fs"
	"pgregory.net/rapid"

	"github.com/jsightapi/jsight-api-core/scanner"

	"verif/vlib"
)

// C12 – the scanner reports exactly the lexemes that are in the text.

var lexCode = map[scanner.LexemeType]byte{
	scanner.Keyword: 'K', scanner.Parameter: 'P', scanner.Annotation: 'A', scanner.Schema: 'S', scanner.Json: 'J',
	scanner.Text: 'T', scanner.ContextExplicitOpening: '(', scanner.ContextExplicitClosing: ')', scanner.Enum: 'E',
}

// Lex is one lexeme as observed.
type Lex struct {
	T byte `json:"t"`
	B int  `json:"b"`
	E int  `json:"e"`
}

type lexResult struct {
	Lexemes  []Lex
	Types    string
	ErrMsg   string
	ErrIndex int
	Failed   bool
	Panic    string
	PanicSig string
}

func lexAll(b []byte) (r lexResult) {
	sig, text, _ := vlib.Safely(func() {
		s := scanner.NewJApiScanner(fs.NewFile("x.jst", b))
		var sb strings.Builder
		for i := 0; ; i++ {
			l, e := s.Next()
			if e != nil {
				r.Failed, r.ErrMsg, r.ErrIndex = true, e.Msg, int(e.Index)
				break
			}
			if l == nil {
				break
			}
			c, ok := lexCode[l.Type()]
			if !ok {
				c = '?'
			}
			sb.WriteByte(c)
			r.Lexemes = append(r.Lexemes, Lex{c, int(l.Begin()), int(l.End())})
			if i > len(b)+10 {
				r.Panic, r.PanicSig = "scanner yields more lexemes than bytes", "c12:endless-lexemes"
				break
			}
		}
		r.Types = sb.String()
	})
	if sig != "" {
		r.Panic, r.PanicSig = text, sig
	}
	return
}

// scanner-level grammar of the type sequence: parameters/annotation only directly after their keyword, at most one body
// per keyword; parentheses may occur anywhere between directives (their balance is the core's business, C11).
var lexGrammar = regexp.MustCompile(`^(\(|\)|KP*A?(\(*[STEJ])?)*$`)

func lexFirstBad(s string) string {
	for i := 1; i <= len(s); i++ {
		if !lexGrammarPrefixOK(s[:i]) {
			lo := i - 5
			if lo < 0 {
				lo = 0
			}
			return s[lo:i]
		}
	}
	return "?"
}

// a prefix is fine if it can be completed: approximate by checking the full grammar on the prefix (the grammar is
// prefix-closed except for "KP*A?(+" awaiting a body, which the main alternative "(" also covers).
func lexGrammarPrefixOK(s string) bool { return lexGrammar.MatchString(s) }

func c12WellFormed(c *vlib.Case) *vlib.Violation {
	b := c.Project.RootBytes()
	r := lexAll(b)
	if r.Panic != "" {
		return vlib.V(r.PanicSig, "scanner panicked on %q: %s", clip(b, 300), r.Panic)
	}
	if r.Failed && (r.ErrIndex < 0 || r.ErrIndex > len(b)) {
		return vlib.V("c12:error-index-outside-file", "error %q has index %d, file length %d; input %q", r.ErrMsg, r.ErrIndex, len(b), clip(b, 300))
	}
	prevEnd := -1
	for i, l := range r.Lexemes {
		switch {
		case l.B > l.E+1:
			return vlib.V("c12:begin-after-end", "lexeme #%d %c [%d:%d] in %q", i, l.T, l.B, l.E, clip(b, 300))
		case l.E >= len(b):
			return vlib.V("c12:end-outside-file", "lexeme #%d %c [%d:%d], file length %d, input %q", i, l.T, l.B, l.E, len(b), clip(b, 300))
		case l.B <= prevEnd:
			return vlib.V("c12:overlap-or-order", "lexeme #%d %c [%d:%d] begins before the previous one ends (%d); input %q", i, l.T, l.B, l.E, prevEnd, clip(b, 300))
		case l.B < 0:
			return vlib.V("c12:negative-begin", "lexeme #%d %c [%d:%d]", i, l.T, l.B, l.E)
		}
		if l.E >= l.B {
			prevEnd = l.E
		} else if l.B-1 > prevEnd {
			prevEnd = l.B - 1
		}
		if (l.T == '(' || l.T == ')') && (l.B != l.E || b[l.B] != l.T) {
			return vlib.V("c12:parenthesis-extent", "lexeme #%d %c [%d:%d] is not the parenthesis byte; input %q", i, l.T, l.B, l.E, clip(b, 300))
		}
		if l.T == 'K' && l.E >= l.B {
			w := string(b[l.B : l.E+1])
			if !kwIsKeyword(w) {
				return vlib.V("c12:keyword-text", "keyword lexeme #%d covers %q; input %q", i, w, clip(b, 300))
			}
		}
	}
	if !lexGrammar.MatchString(r.Types) {
		return vlib.V("c12:bracketing:"+lexFirstBad(r.Types), "lexeme type sequence %q is not well-bracketed per directive; input %q", r.Types, clip(b, 300))
	}
	return nil
}

func clip(b []byte, n int) string {
	if len(b) > n {
		return string(b[:n]) + "…"
	}
	return string(b)
}

func c12Classify(c *vlib.Case) (bool, []string) {
	r := lexAll(c.Project.RootBytes())
	var cls []string
	if r.Failed {
		cls = append(cls, "scan-error")
	} else {
		cls = append(cls, "scan-ok")
	}
	if strings.ContainsAny(r.Types, "A") {
		cls = append(cls, "has-annotation")
	}
	if strings.ContainsAny(r.Types, "STE") {
		cls = append(cls, "has-body")
	}
	if strings.ContainsAny(r.Types, "()") {
		cls = append(cls, "has-paren")
	}
	return len(r.Lexemes) >= 3, cls
}

var c12Alphabet = []string{
	"G", "E", "T", "U", "R", "L", "P", "O", "S", "a", "b", "e", "x", "0", "1", "2", "3", "4", "5", "9",
	"\"", "#", "/", "/", "(", ")", "*", "{", "}", "[", "]", "@", "\\", ":", ",", "|",
	" ", " ", " ", "\t", "\n", "\n", "\n", "\r", "\r\n", "\x00", "\xff", "\xc3\xa9", "-", ".",
}

var c12Tokens = []string{"GET", "POST", "URL", "TYPE", "ENUM", "Body", "Request", "200", "404", "Description", "Headers", "Query", "Path", "MACRO", "PASTE",
	"INCLUDE", "INFO", "Title", "Version", "TAG", "Tags", "JSIGHT", "SERVER", "BaseUrl", "Protocol", "Method", "Params", "Result", "OperationId", "PUT", "PATCH", "DELETE",
	" ", " ", " ", "\n", "\n", "\n", "\r\n", "\r", "\t", "(", ")", "//", "/*", "*/", "/*/", "#", "###", "\"", "\\", "/a", "/a/{id}", "@a", "{}", "[]", "[1]", "{\"a\":1}", "1", "\"s\"",
	"any", "empty", "regex", "jsight", "/ab/", "x", "0.3", "// {optional: true}", "\n  ", "\n    ", "[\"\", \"x\"]", "@a | @b", "json-rpc-2.0", "htmlFormEncoded", "text"}

var c12Bytes = &vlib.Check{
	Prop: "C12", Name: "bytes", Quick: 60000, Thorough: 6000000,
	Oracle: c12WellFormed, Classify: c12Classify,
	Gen: func(t *rapid.T) *vlib.Case {
		r := vlib.RapidRnd{T: t}
		var sb strings.Builder
		switch r.Intn(3) {
		case 0: // byte alphabet after a plausible head
			if vlib.Chance(r, 1, 2) {
				sb.WriteString(vlib.Pick(r, c12Tokens[:32]))
			}
			n := r.Intn(40)
			for i := 0; i < n; i++ {
				sb.WriteString(vlib.Pick(r, c12Alphabet))
			}
		default: // token strings
			n := 1 + r.Intn(16)
			for i := 0; i < n; i++ {
				sb.WriteString(vlib.Pick(r, c12Tokens))
			}
		}
		return &vlib.Case{Project: vlib.SingleFile([]byte(sb.String()))}
	},
}

var c12Mut = &vlib.Check{
	Prop: "C12", Name: "mutated", Quick: 20000, Thorough: 1600000,
	Oracle: c12WellFormed, Classify: c12Classify,
	Gen: func(t *rapid.T) *vlib.Case {
		r := vlib.RapidRnd{T: t}
		if vlib.Chance(r, 1, 3) {
			return &vlib.Case{Project: vlib.SingleFile(genSoup(r, 8))}
		}
		return &vlib.Case{Project: vlib.SingleFile(genMutated(r, 3000))}
	},
}

// c12Lines: every directive line made of a keyword and up to three pieces (parameters, annotations of both kinds, a
// comment, bodies, a second keyword) followed by a line break and a child: whatever the scanner makes of it is an error
// or a well-bracketed stream.
var c12Lines = &vlib.Check{Prop: "C12", Name: "directive-lines", Oracle: c12WellFormed, Classify: c12Classify}

var c12LineHeads = []string{"GET", "200", "TYPE", "Request", "URL", "Body", "ENUM", "Headers", "MACRO", "PASTE", "Tags", "Description"}
var c12LinePieces = []string{" /a", " @a", " \"q\"", " /* n */", " // n", " # c", " {\"a\":1}", " [@a]", " regex", " any", " GET", " 200", " (", "\n  200 any"}

// c12Corpus: every corpus file, as is and under CRLF / CR.
var c12Corpus = &vlib.Check{Prop: "C12", Name: "corpus", Oracle: c12WellFormed, Classify: c12Classify}

func init() { vlib.Register(c12Bytes, c12Mut, c12Corpus, c12Lines) }

func TestC12(t *testing.T) {
	if vlib.Shard() == 0 {
		t.Run("corpus", func(t *testing.T) {
			var docs [][]byte
			for _, e := range vlib.Corpus() {
				for _, n := range e.Project.Names() {
					b := e.Project.Files[n]
					docs = append(docs, b, []byte(strings.ReplaceAll(string(b), "\n", "\r\n")), []byte(strings.ReplaceAll(string(b), "\n", "\r")))
				}
			}
			i := 0
			c12Corpus.RunEnum(t, func() *vlib.Case {
				if i >= len(docs) {
					return nil
				}
				i++
				return &vlib.Case{Project: vlib.SingleFile(docs[i-1])}
			})
		})
	}
	if vlib.Shard() == 1%vlib.Shards() {
		t.Run("directive-lines", func(t *testing.T) {
			np := len(c12LinePieces)
			total := len(c12LineHeads) * (np + np*np + np*np*np)
			i := 0
			done := c12Lines.RunEnum(t, func() *vlib.Case {
				if i >= total {
					return nil
				}
				k := i
				i++
				h := c12LineHeads[k%len(c12LineHeads)]
				k /= len(c12LineHeads)
				var sb strings.Builder
				sb.WriteString("JSIGHT 0.3\n" + h)
				switch {
				case k < np:
					sb.WriteString(c12LinePieces[k])
				case k < np+np*np:
					k -= np
					sb.WriteString(c12LinePieces[k/np] + c12LinePieces[k%np])
				default:
					k -= np + np*np
					sb.WriteString(c12LinePieces[k/(np*np)] + c12LinePieces[(k/np)%np] + c12LinePieces[k%np])
				}
				sb.WriteString("\n  200 any\n")
				return &vlib.Case{Project: vlib.SingleFile([]byte(sb.String()))}
			})
			if done {
				vlib.Ev("C12").Exhaustive("every directive line of a keyword (12) and 1..3 pieces (14)", true)
			}
		})
	}
	t.Run("bytes", c12Bytes.Run)
	t.Run("mutated", c12Mut.Run)
	if c12ExactHook != nil {
		c12ExactHook(t)
	}
}

// c12ExactHook is set by the renderer-based exactness check (c12_exact_test.go) once the renderer is available.
var c12ExactHook func(t *testing.T)
