package props

import (
	"bytes"
	"fmt"
	"strings"
	"testing"

	"pgregory.net/rapid"

	"verif/mdl"
	"verif/vlib"
)

// C12 (second half) – for well-formed documents the lexeme stream equals, byte for byte, the keywords, parameters,
// annotations, parentheses and bodies the document was rendered from.  Expect carries the renderer's spans.

type spanJSON struct {
	T string `json:"t"`
	B int    `json:"b"`
	E int    `json:"e"`
}

func trimBlank(b []byte, lo, hi int) (int, int) {
	for lo <= hi && lo < len(b) && strings.ContainsRune(" \t\r\n", rune(b[lo])) {
		lo++
	}
	for hi >= lo && hi < len(b) && strings.ContainsRune(" \t\r\n", rune(b[hi])) {
		hi--
	}
	return lo, hi
}

func c12ExactOracle(c *vlib.Case) *vlib.Violation {
	spans, _ := c.Params["spans"].([]any)
	src := c.Project.RootBytes()
	r := lexAll(src)
	if r.Panic != "" {
		return vlib.V("c12:exact:"+r.PanicSig, "scanner panicked on a rendered document: %s", r.Panic)
	}
	if r.Failed {
		return vlib.V("c12:exact:scan-error:"+errClass(r.ErrMsg), "a rendered (well-formed) document does not scan: %q at %d\n%s", r.ErrMsg, r.ErrIndex, around(string(src), r.ErrIndex))
	}
	var want []Lex
	for _, s := range spans {
		m, _ := s.(map[string]any)
		t, _ := m["t"].(string)
		want = append(want, Lex{T: t[0], B: asInt(m["b"]), E: asInt(m["e"])})
	}
	for i := 0; i < len(want) && i < len(r.Lexemes); i++ {
		w, g := want[i], r.Lexemes[i]
		if w.T != g.T {
			return vlib.V(fmt.Sprintf("c12:exact:type:%c-vs-%c", w.T, g.T), "lexeme #%d: rendered %c [%d:%d] %q, scanned %c [%d:%d] %q", i, w.T, w.B, w.E, clipRange(src, w.B, w.E), g.T, g.B, g.E, clipRange(src, g.B, g.E))
		}
		wb, we, gb, ge := w.B, w.E, g.B, g.E
		switch w.T {
		case 'T':
			// Description text: the content after trimming blanks on both sides is what the language defines
			if w.B == -2 {
				continue // text in parentheses: extent includes the parentheses, compared through the catalog (C02)
			}
			wb, we = trimBlank(src, wb, we)
			gb, ge = trimBlank(src, gb, ge)
		case 'A':
			// an annotation is compared after trimming blanks (the scanner may or may not include the blanks around it)
			wb, we = trimBlank(src, wb, we)
			gb, ge = trimBlank(src, gb, ge)
		}
		if (w.T == 'S' || w.T == 'E') && wb == gb && ge > we && onlyTrivia(src[we+1:ge+1]) && bytes.IndexByte(src[we+1:ge+1], '#') >= 0 {
			// the schema reader takes '#' comments that directly follow a body (and the blanks before them) into the body
			// extent; blanks alone do not belong to it
			continue
		}
		if wb != gb || we != ge {
			return vlib.V(fmt.Sprintf("c12:exact:extent:%c", w.T), "lexeme #%d %c: rendered [%d:%d] %q, scanned [%d:%d] %q", i, w.T, wb, we, clipRange(src, wb, we), gb, ge, clipRange(src, gb, ge))
		}
	}
	if len(want) != len(r.Lexemes) {
		return vlib.V("c12:exact:count", "rendered %d lexemes, scanned %d (types %s)", len(want), len(r.Lexemes), r.Types)
	}
	return nil
}

// onlyTrivia: blanks, line breaks and '#' line comments / '###' blocks only.
func onlyTrivia(b []byte) bool {
	inBlock := false
	for _, line := range strings.FieldsFunc(string(b), func(r rune) bool { return r == '\n' || r == '\r' }) {
		t := strings.TrimSpace(line)
		switch {
		case t == "###":
			inBlock = !inBlock
		case inBlock, t == "", strings.HasPrefix(t, "#"):
		default:
			return false
		}
	}
	return true
}

func clipRange(b []byte, lo, hi int) string {
	if lo < 0 || hi >= len(b) || lo > hi+1 {
		return fmt.Sprintf("<%d:%d>", lo, hi)
	}
	s := string(b[lo : hi+1])
	if len(s) > 120 {
		s = s[:120] + "…"
	}
	return s
}

var c12Exact = &vlib.Check{
	Prop: "C12", Name: "exact", Quick: 3000, Thorough: 320000,
	Oracle: c12ExactOracle,
	Gen: func(t *rapid.T) *vlib.Case {
		r := vlib.RapidRnd{T: t}
		doc := mdl.Gen(r)
		tree := mdl.BuildTree(doc, mdl.TreeOpts{R: r})
		if vlib.Chance(r, 1, 3) {
			tree, _, _ = mdl.Macroize(r, tree, 1+r.Intn(3))
		}
		rd := mdl.Render(tree, mdl.RandomLayout(r))
		var spans []any
		for _, s := range rd.Spans[rd.Root] {
			spans = append(spans, map[string]any{"t": string([]byte{s.T}), "b": s.B, "e": s.E})
		}
		feats := map[string]any{}
		for k, v := range rd.Features {
			feats[k] = v
		}
		return &vlib.Case{Project: vlib.SingleFile(rd.Files[rd.Root]), Params: map[string]any{"spans": spans, "features": feats}}
	},
	Classify: func(c *vlib.Case) (bool, []string) {
		spans, _ := c.Params["spans"].([]any)
		feats, _ := c.Params["features"].(map[string]any)
		var cls []string
		for k := range feats {
			cls = append(cls, "layout:"+k)
		}
		_, a := feats["line-annotation"]
		_, b := feats["block-annotation"]
		_, q := feats["quoted-param"]
		_, tr := feats["trivia"]
		return len(spans) >= 3 && (a || b || q) && tr, cls
	},
	SampleOf: func(c *vlib.Case) any { return clip(c.Project.RootBytes(), 500) },
}

func init() {
	vlib.Register(c12Exact)
	c12ExactHook = func(t *testing.T) { t.Run("exact", c12Exact.Run) }
}
