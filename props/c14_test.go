package props

import (
	"fmt"
	"os"
	"path/filepath"
	"strings"
	"sync"
	"testing"

	"github.com/jsightapi/jsight-schema-core/fs"
	"pgregory.net/rapid"

	"github.com/jsightapi/jsight-api-core/core"
	"github.com/jsightapi/jsight-api-core/jerr"

	"verif/vlib"
)

// C14 – INCLUDE only reads inside the project; include cycles are errors.

// c14Refused is the specification predicate: absolute paths, any "." / ".." path segment and backslashes are refused
// before the file system is consulted.  (The empty name is refused too: there is nothing to include.)
func c14Refused(s string) bool {
	if s == "" || strings.HasPrefix(s, "/") || strings.Contains(s, `\`) {
		return true
	}
	for _, seg := range strings.Split(s, "/") {
		if seg == "." || seg == ".." {
			return true
		}
	}
	return false
}

var (
	c14Once sync.Once
	c14T    string // fixture root: T/proj is the project, T/a, T/secret.jst are decoys outside it
	c14Mu   sync.Mutex
)

func c14Fixture() (T, proj string) {
	c14Once.Do(func() {
		c14T = filepath.Join(vlib.WorkDir(), "c14")
		p := filepath.Join(c14T, "proj")
		for _, d := range []string{"ab", "b", "a.d", "ab/ab"} {
			_ = os.MkdirAll(filepath.Join(p, d), 0o755)
		}
		w := func(rel, s string) { _ = os.WriteFile(filepath.Join(c14T, rel), []byte(s), 0o644) }
		w("proj/a", "TYPE @a\n 1\n")
		w("proj/ab/a", "TYPE @aba\n 1\n")
		w("proj/ab/b", "TYPE @abb\n 1\n")
		w("proj/b/b", "TYPE @bb\n 1\n")
		w("proj/ab/ab/a", "TYPE @ababa\n 1\n")
		w("proj/..a", "TYPE @dda\n 1\n")
		w("proj/.b", "TYPE @db\n 1\n")
		w("proj/a.", "TYPE @adot\n 1\n")
		w("proj/a..b", "TYPE @addb\n 1\n")
		w("a", "TYPE @decoy\n 1\n")
		w("b", "TYPE @decoy2\n 1\n")
		w("secret.jst", "TYPE @secret\n 1\n")
	})
	return c14T, filepath.Join(c14T, "proj")
}

type c14Run struct {
	msg      string
	line     int
	file     string
	accessed []string
	panicked string
	ok       bool
}

func c14Build(rootPath string, doc []byte) (r c14Run) {
	c14Mu.Lock()
	defer c14Mu.Unlock()
	core.VerifSetFileAccessObserver(func(p string) { r.accessed = append(r.accessed, p) })
	defer core.VerifSetFileAccessObserver(nil)
	sig, txt, _ := vlib.Safely(func() {
		c := core.NewJApiCore(fs.NewFile(rootPath, doc))
		if je := c.BuildCatalog(); je != nil {
			r.msg, r.line = je.Msg, int(je.Line)
			if je.File != nil {
				r.file = je.File.Name()
			}
		} else {
			r.ok = true
		}
	})
	if sig != "" {
		r.panicked = sig + " " + txt
	}
	return
}

func c14Quote(s string) string {
	return `"` + strings.ReplaceAll(strings.ReplaceAll(s, `\`, `\\`), `"`, `\"`) + `"`
}

// c14NameOracle: Params: name (string), quoted (bool).
func c14NameOracle(c *vlib.Case) *vlib.Violation {
	name, _ := c.Params["name"].(string)
	quoted, _ := c.Params["quoted"].(bool)
	_, proj := c14Fixture()
	form := name
	if quoted {
		form = c14Quote(name)
	}
	// the INCLUDE is written in the root file, or (nested) in proj/ab/inner.jst which the root file includes: then only
	// proj/ab and what lies below it may be touched for it - files of the same name exist one level up
	nested := c.Params["nested"] == true
	doc := "JSIGHT 0.3\nINCLUDE " + form + "\n"
	incFile, incLine, area := filepath.Join(proj, "root.jst"), 2, proj
	if nested {
		c14Mu.Lock()
		_ = os.WriteFile(filepath.Join(proj, "ab", "inner.jst"), []byte("INCLUDE "+form+"\n"), 0o644)
		c14Mu.Unlock()
		doc = "JSIGHT 0.3\nINCLUDE ab/inner.jst\n"
		incFile, incLine, area = filepath.Join(proj, "ab", "inner.jst"), 1, filepath.Join(proj, "ab")
	}
	r := c14Build(filepath.Join(proj, "root.jst"), []byte(doc))
	if r.panicked != "" {
		return nil // C01's business
	}
	if nested {
		// the access to inner.jst itself is not the subject
		var rest []string
		for _, p := range r.accessed {
			if filepath.Clean(p) != incFile {
				rest = append(rest, p)
			}
		}
		r.accessed = rest
	}
	what := fmt.Sprintf("INCLUDE %s (name %q, nested=%v): ok=%v msg=%q line=%d accessed=%v", form, name, nested, r.ok, r.msg, r.line, r.accessed)
	// whatever the parameter says: nothing outside the project - and nothing above the directory of the including file - is touched
	for _, p := range r.accessed {
		cl := filepath.Clean(p)
		if !strings.HasPrefix(cl, proj+string(filepath.Separator)) {
			return vlib.V("c14:access-outside-project", "%s", what)
		}
		if !strings.HasPrefix(cl, area+string(filepath.Separator)) {
			return vlib.V("c14:access-above-the-including-file", "%s", what)
		}
	}
	if c14Refused(name) {
		switch {
		case r.ok:
			return vlib.V("c14:refused-name-accepted", "%s", what)
		case len(r.accessed) > 0:
			return vlib.V("c14:refused-name-reaches-file-system", "%s", what)
		case r.line != incLine || r.file != incFile:
			return vlib.V("c14:refusal-not-at-include", "%s", what)
		}
		return nil
	}
	// allowed by the specification: included, or an error located at the INCLUDE (missing, directory, or over-refusal)
	if !r.ok && (r.line != incLine || r.file != incFile) {
		// an error inside the included file is fine (e.g. duplicate type): it must then lie in the project
		if strings.HasPrefix(r.file, proj+string(filepath.Separator)) && len(r.accessed) > 0 {
			return nil
		}
		return vlib.V("c14:error-not-at-include", "%s", what)
	}
	if r.ok && len(r.accessed) == 0 {
		return vlib.V("c14:included-without-file-access", "%s (observer hook not reached?)", what)
	}
	return nil
}

func c14NameClassify(c *vlib.Case) (bool, []string) {
	name, _ := c.Params["name"].(string)
	cls := []string{"allowed-by-spec"}
	if c14Refused(name) {
		cls = []string{"refused-by-spec"}
	}
	if q, _ := c.Params["quoted"].(bool); q {
		cls = append(cls, "quoted")
	}
	if c.Params["nested"] == true {
		cls = append(cls, "include-written-in-a-subdirectory")
	}
	return strings.ContainsAny(name, "./\\"), cls
}

var c14Names = &vlib.Check{Prop: "C14", Name: "names", Oracle: c14NameOracle, Classify: c14NameClassify,
	SampleOf: func(c *vlib.Case) any { return c.Params }}

func c14BareOK(s string) bool {
	if s == "" || strings.HasPrefix(s, "//") || strings.HasPrefix(s, "/*") || strings.HasPrefix(s, `"`) || strings.HasPrefix(s, "#") {
		return false
	}
	return !strings.ContainsAny(s, " \t\r\n#\x00")
}

var c14RandomNames = &vlib.Check{
	Prop: "C14", Name: "names-random", Quick: 8000, Thorough: 400000,
	Oracle: c14NameOracle, Classify: c14NameClassify,
	SampleOf: func(c *vlib.Case) any { return c.Params },
	Gen: func(t *rapid.T) *vlib.Case {
		r := vlib.RapidRnd{T: t}
		alpha := []string{"a", "b", ".", "/", "\\", "..", "ab", "secret.jst", "~", ":", "%2e", "%2f", "é", " ", "proj", "C:", "\"", "*", "?", "..a", "a.", "-", "_"}
		n := 1 + r.Intn(8)
		var sb strings.Builder
		for i := 0; i < n; i++ {
			sb.WriteString(vlib.Pick(r, alpha))
		}
		name := sb.String()
		quoted := vlib.Chance(r, 1, 2)
		if !quoted && !c14BareOK(name) {
			quoted = true
		}
		if quoted && strings.ContainsAny(name, "\r\n\x00") {
			return nil
		}
		return &vlib.Case{Project: vlib.SingleFile([]byte(name)), Params: map[string]any{"name": name, "quoted": quoted, "nested": vlib.Chance(r, 1, 2)}}
	},
}

// ---- include graphs ---------------------------------------------------------------------------------------------

// Graph case: Params "edges": [[targets of file 0 (= root)], [targets of file 1], ...]; file i is "f<i>.jst" (root = root.jst);
// every file contributes one response with code 200+i before its includes, so the flattening is visible in the catalog.
// c14EmptyLeaves: when set, the files that include nothing (other than the root) are zero-length files: they contribute
// nothing, and nothing about them may disturb the INCLUDEs that follow.  Set from the case before the oracle / classifier
// look at the graph (one case at a time per process).
var c14EmptyLeaves bool

func c14IsEmptyLeaf(edges [][]int, i int) bool {
	return c14EmptyLeaves && i > 0 && len(edges[i]) == 0
}

// c14Parens: when set (cyclic graphs only), every included file is a URL whose explicit "( )" context holds its INCLUDE
// directives: the text of the file is not legal inside itself, so a cycle that is noticed only after the file has been
// entered a second time is reported as something else than a recursion.
var c14Parens bool

func c14GraphProject(edges [][]int) *vlib.Project {
	p := &vlib.Project{Root: "root.jst", Files: map[string][]byte{}, Dirs: []string{"."}} // always on disk
	name := func(i int) string {
		if i == 0 {
			return "root.jst"
		}
		return fmt.Sprintf("f%d.jst", i)
	}
	if c14Parens {
		for i, out := range edges {
			var sb strings.Builder
			ind := "  "
			if i == 0 {
				sb.WriteString("JSIGHT 0.3\n")
				ind = ""
			} else {
				fmt.Fprintf(&sb, "URL /u%d\n(\n  GET\n    200 any\n", i)
			}
			for _, t := range out {
				fmt.Fprintf(&sb, "%sINCLUDE %s\n", ind, name(t))
			}
			if i > 0 {
				sb.WriteString(")\n")
			}
			p.Files[name(i)] = []byte(sb.String())
		}
		return p
	}
	for i, out := range edges {
		var sb strings.Builder
		if i == 0 {
			sb.WriteString("JSIGHT 0.3\nGET /a\n")
		}
		if !c14IsEmptyLeaf(edges, i) {
			fmt.Fprintf(&sb, "  %d any\n", 200+i)
		}
		for _, t := range out {
			fmt.Fprintf(&sb, "  INCLUDE %s\n", name(t))
		}
		p.Files[name(i)] = []byte(sb.String())
	}
	return p
}

func c14Edges(c *vlib.Case) [][]int {
	raw, _ := c.Params["edges"].([]any)
	var edges [][]int
	for _, row := range raw {
		rr, _ := row.([]any)
		var out []int
		for _, x := range rr {
			switch n := x.(type) {
			case float64:
				out = append(out, int(n))
			case int:
				out = append(out, n)
			}
		}
		edges = append(edges, out)
	}
	return edges
}

// reference: DFS from the root; returns (cycle reachable, flattening of response codes if acyclic, files on a cycle)
func c14Flatten(edges [][]int, limit int) (cyclic bool, codes []int, tooBig bool) {
	onStack := make([]bool, len(edges))
	var dfs func(i int) bool
	dfs = func(i int) bool {
		if onStack[i] {
			return true
		}
		onStack[i] = true
		if !c14IsEmptyLeaf(edges, i) {
			codes = append(codes, 200+i)
		}
		if len(codes) > limit {
			tooBig = true
			onStack[i] = false
			return false
		}
		for _, t := range edges[i] {
			if dfs(t) {
				return true
			}
			if tooBig {
				break
			}
		}
		onStack[i] = false
		return false
	}
	cyclic = dfs(0)
	return
}

// onCycle[i][j]: edge i->j lies on a cycle (j reaches i)
func c14Reaches(edges [][]int, from, to int) bool {
	seen := make([]bool, len(edges))
	var st []int
	st = append(st, from)
	for len(st) > 0 {
		x := st[len(st)-1]
		st = st[:len(st)-1]
		if x == to {
			return true
		}
		if seen[x] {
			continue
		}
		seen[x] = true
		st = append(st, edges[x]...)
	}
	return false
}

// c14OnCycle: file i reaches itself through at least one edge.
func c14OnCycle(edges [][]int, i int) bool {
	for _, t := range edges[i] {
		if c14Reaches(edges, t, i) {
			return true
		}
	}
	return false
}

func c14GraphOracle(c *vlib.Case) *vlib.Violation {
	edges := c14Edges(c)
	c14EmptyLeaves = c.Params["empty_leaves"] == true
	c14Parens = c.Params["parens"] == true
	p := c14GraphProject(edges)
	c14Parens = false
	if c.Project != nil {
		p.RootSpelling, p.ViaPath = c.Project.RootSpelling, c.Project.ViaPath
	}
	cyclic, codes, tooBig := c14Flatten(edges, 3000)
	if tooBig {
		return nil
	}
	b := vlib.Build(p)
	defer b.Close()
	o := b.Out
	if o.Crashed() {
		return nil
	}
	desc := fmt.Sprintf("edges %v: %s", edges, o.Brief())
	if cyclic {
		if o.OK() {
			return vlib.V("c14:cycle-accepted", "a file reaches itself through INCLUDE but the project is accepted; %s", desc)
		}
		if !strings.HasPrefix(o.Msg, jerr.RecursionIsProhibited) {
			// the recursion is noticed when the re-entered file meets its INCLUDE for the second time; an error in the
			// repeated text comes first (open finding F2): the JSIGHT of a re-included root file, a URL inside its own
			// explicit context
			return vlib.V("c14:cycle-other-error", "a file reaches itself through INCLUDE and the project is rejected with another error than the recursion error; %s", desc)
		}
		// located at an INCLUDE that lies on a cycle
		fi := -1
		for i := range edges {
			n := "root.jst"
			if i > 0 {
				n = fmt.Sprintf("f%d.jst", i)
			}
			if n == o.File {
				fi = i
			}
		}
		if fi < 0 {
			return vlib.V("c14:cycle-error-file", "%s", desc)
		}
		// the implementation notices the recursion when the re-entered file meets its next INCLUDE, so the error sits on an
		// INCLUDE line of a file that lies on a cycle (the property fixes the class of the error, not which INCLUDE)
		target := vlib.IncludesOnLine(p, o.File, o.Line)
		if target == "" || !c14OnCycle(edges, fi) {
			return vlib.V("c14:cycle-error-not-on-cycle", "the recursion error is not located at an INCLUDE of a file lying on a cycle (line %d of %s includes %q); %s", o.Line, o.File, target, desc)
		}
		return nil
	}
	if !o.OK() {
		if strings.HasPrefix(o.Msg, jerr.RecursionIsProhibited) {
			return vlib.V("c14:acyclic-refused", "repeated inclusion without a cycle is refused as recursion; %s", desc)
		}
		return vlib.V("c14:acyclic-other-error", "%s", desc)
	}
	js, err := b.Api.ToJson()
	if err != nil {
		return nil
	}
	doc, err := vlib.ParseOrdered(js)
	if err != nil {
		return nil
	}
	it := doc.Get("interactions").Get("http GET /a")
	var got []string
	if rs := it.Get("responses"); rs != nil {
		for _, r := range rs.Vals {
			got = append(got, r.S("code"))
		}
	}
	var want []string
	for _, cdx := range codes {
		want = append(want, fmt.Sprint(cdx))
	}
	if strings.Join(got, ",") != strings.Join(want, ",") {
		return vlib.V("c14:flattening", "edges %v: responses %v, the include graph flattens to %v", edges, got, want)
	}
	return nil
}

func c14GraphClassify(c *vlib.Case) (bool, []string) {
	edges := c14Edges(c)
	c14EmptyLeaves = c.Params["empty_leaves"] == true
	cyclic, codes, _ := c14Flatten(edges, 3000)
	cls := []string{"acyclic"}
	nt := false
	if c.Project.RootSpelling != "" {
		cls = append(cls, "root-path-not-clean")
	}
	if cyclic {
		cls[0] = "cyclic"
		nt = true
	} else {
		seen := map[int]bool{}
		for _, cd := range codes {
			if seen[cd] {
				nt = true
				cls = append(cls, "repeated-include")
				break
			}
			seen[cd] = true
		}
	}
	return nt, cls
}

func c14GraphCase(edges [][]int) *vlib.Case {
	c14EmptyLeaves = false
	raw := make([]any, len(edges))
	for i, row := range edges {
		rr := make([]any, len(row))
		for j, x := range row {
			rr[j] = x
		}
		raw[i] = rr
	}
	return &vlib.Case{Project: c14GraphProject(edges), Params: map[string]any{"edges": raw}}
}

var c14Graphs = &vlib.Check{Prop: "C14", Name: "graphs", Oracle: c14GraphOracle, Classify: c14GraphClassify,
	SampleOf: func(c *vlib.Case) any { return c.Params }}

var c14RandomGraphs = &vlib.Check{
	Prop: "C14", Name: "graphs-random", Quick: 1500, Thorough: 60000,
	Oracle: c14GraphOracle, Classify: c14GraphClassify,
	SampleOf: func(c *vlib.Case) any { return c.Params },
	Gen: func(t *rapid.T) *vlib.Case {
		r := vlib.RapidRnd{T: t}
		n := 2 + r.Intn(4)
		edges := make([][]int, n)
		for i := range edges {
			k := r.Intn(3)
			for j := 0; j < k; j++ {
				t := r.Intn(n)
				if vlib.Chance(r, 2, 3) && t <= i { // mostly forward edges so that acyclic graphs are common
					t = i + 1 + r.Intn(n-i)
					if t >= n {
						continue
					}
				}
				edges[i] = append(edges[i], t)
			}
		}
		c := c14GraphCase(edges)
		if vlib.Chance(r, 1, 3) {
			c.Params["empty_leaves"] = true
			c14EmptyLeaves = true
			c.Project = c14GraphProject(edges)
		}
		if cyclic, _, _ := c14Flatten(edges, 3000); cyclic && vlib.Chance(r, 1, 2) {
			delete(c.Params, "empty_leaves")
			c14EmptyLeaves = false
			c.Params["parens"] = true
			c14Parens = true
			c.Project = c14GraphProject(edges)
			c14Parens = false
		}
		c.Project.RootSpelling = vlib.Pick(r, c14Spellings)
		c.Project.ViaPath = vlib.Chance(r, 1, 2)
		return c
	},
}

var c14Spellings = []string{"", "dot", "slashes", "updown"}

// c14Chains: acyclic include chains through directories in which files share their base names (index.jst, a.jst): an
// include stack keyed by anything less than the full path would report a false recursion.
var c14Chains = &vlib.Check{
	Prop: "C14", Name: "same-name-chains", Quick: 1500, Thorough: 60000,
	Oracle: func(c *vlib.Case) *vlib.Violation {
		b := vlib.Build(c.Project)
		defer b.Close()
		if b.Out.Crashed() {
			return nil
		}
		if !b.Out.OK() {
			return vlib.V("c14:acyclic-chain-refused:"+errClass(b.Out.Msg), "an acyclic include chain through same-named files is rejected: %s", b.Out.Brief())
		}
		js, err := b.Api.ToJson()
		if err != nil {
			return nil
		}
		want, _ := c.Params["responses"].(string)
		doc, err := vlib.ParseOrdered(js)
		if err != nil {
			return nil
		}
		var got []string
		if rs := doc.Get("interactions").Get("http GET /a").Get("responses"); rs != nil {
			for _, r := range rs.Vals {
				got = append(got, r.S("code"))
			}
		}
		if strings.Join(got, ",") != want {
			return vlib.V("c14:flattening", "responses %v, the include chain flattens to %s", got, want)
		}
		return nil
	},
	Classify: func(c *vlib.Case) (bool, []string) { return true, []string{fmt.Sprintf("depth-%v", c.Params["depth"])} },
	SampleOf: func(c *vlib.Case) any { return c.Project.Summary(300) },
	Gen: func(t *rapid.T) *vlib.Case {
		r := vlib.RapidRnd{T: t}
		depth := 2 + r.Intn(4)
		base := vlib.Pick(r, []string{"index.jst", "a.jst", "root.jst"})
		p := &vlib.Project{Root: "root.jst", Files: map[string][]byte{}, Dirs: []string{"."}}
		var codes []string
		dir := ""
		prev := "root.jst"
		content := map[string]*strings.Builder{"root.jst": {}}
		content["root.jst"].WriteString("JSIGHT 0.3\nGET /a\n  200 any\n")
		codes = append(codes, "200")
		for i := 1; i <= depth; i++ {
			sub := vlib.Pick(r, []string{"users", "admin", "x"})
			ndir := dir + sub + "/"
			name := ndir + base
			rel := strings.TrimPrefix(name, dir)
			content[prev].WriteString("  INCLUDE " + rel + "\n")
			if vlib.Chance(r, 1, 3) { // the same file twice in a row is legal repetition
				content[prev].WriteString("  INCLUDE " + rel + "\n")
			}
			if _, ok := content[name]; !ok {
				content[name] = &strings.Builder{}
			}
			code := fmt.Sprint(200 + i)
			content[name].WriteString("  " + code + " any\n")
			prev, dir = name, ndir
		}
		for n, sb := range content {
			p.Files[n] = []byte(sb.String())
		}
		// reference flattening by simulation
		var flat func(name string, guard int) []string
		flat = func(name string, guard int) []string {
			var out []string
			if guard > 50 {
				return out
			}
			for _, line := range strings.Split(string(p.Files[name]), "\n") {
				f := strings.Fields(line)
				if len(f) == 2 && f[0] == "INCLUDE" {
					d := ""
					if i := strings.LastIndex(name, "/"); i >= 0 {
						d = name[:i+1]
					}
					out = append(out, flat(d+f[1], guard+1)...)
				} else if len(f) == 2 && f[1] == "any" {
					out = append(out, f[0])
				}
			}
			return out
		}
		_ = codes
		return &vlib.Case{Project: p, Params: map[string]any{"depth": depth, "responses": strings.Join(flat("root.jst", 0), ",")}}
	},
}

func init() { vlib.Register(c14Names, c14RandomNames, c14Graphs, c14RandomGraphs, c14Chains) }

func TestC14(t *testing.T) {
	ev := vlib.Ev("C14")
	if vlib.Shard() == 0 {
		t.Run("names", func(t *testing.T) {
			sigma := []byte{'a', 'b', '.', '/', '\\'}
			maxLen := 5
			if vlib.Tier() == "thorough" {
				maxLen = 7
			}
			// odometer over all strings of length 1..maxLen, each in bare and quoted form
			L, n, limit, form := 1, 0, len(sigma), 0
			total := 0
			empty := true
			done := c14Names.RunEnum(t, func() *vlib.Case {
				if empty {
					empty = false
					return &vlib.Case{Project: vlib.SingleFile(nil), Params: map[string]any{"name": "", "quoted": true}}
				}
				for {
					if n >= limit {
						L++
						if L > maxLen {
							return nil
						}
						n, limit = 0, 1
						for i := 0; i < L; i++ {
							limit *= len(sigma)
						}
					}
					b := make([]byte, L)
					x := n
					for i := L - 1; i >= 0; i-- {
						b[i] = sigma[x%len(sigma)]
						x /= len(sigma)
					}
					name := string(b)
					quoted, nested := form&1 == 1, form&2 == 2
					form++
					if form == 4 {
						form = 0
						n++
					}
					if !quoted && !c14BareOK(name) {
						continue
					}
					total++
					return &vlib.Case{Project: vlib.SingleFile(b), Params: map[string]any{"name": name, "quoted": quoted, "nested": nested}}
				}
			})
			if done {
				ev.Exhaustive(fmt.Sprintf("INCLUDE parameter strings over {a,b,.,/,\\} up to length %d, bare and quoted, written in the root file and in a file of a sub-directory", maxLen), true)
			}
			ev.Extra("enumerated_names", total)
		})
		t.Run("graphs", func(t *testing.T) {
			// all digraphs with ordered out-edge lists (no duplicate targets... duplicates allowed up to 2 edges) on n files
			maxN := 3
			if vlib.Tier() == "thorough" {
				maxN = 4
			}
			var cases [][][]int
			for n := 1; n <= maxN; n++ {
				// out-edge lists: all sequences of length 0..2 over n targets
				var lists [][]int
				lists = append(lists, nil)
				for a := 0; a < n; a++ {
					lists = append(lists, []int{a})
					for b := 0; b < n; b++ {
						lists = append(lists, []int{a, b})
					}
				}
				idx := make([]int, n)
				for {
					edges := make([][]int, n)
					for i := range idx {
						edges[i] = lists[idx[i]]
					}
					cases = append(cases, edges)
					k := 0
					for k < n {
						idx[k]++
						if idx[k] < len(lists) {
							break
						}
						idx[k] = 0
						k++
					}
					if k == n {
						break
					}
				}
			}
			i := 0
			if c14Graphs.RunEnum(t, func() *vlib.Case {
				if i >= len(cases) {
					return nil
				}
				i++
				c := c14GraphCase(cases[i-1])
				if i%3 == 0 {
					c.Params["empty_leaves"] = true
					c14EmptyLeaves = true
					c.Project = c14GraphProject(cases[i-1])
				}
				if cyclic, _, _ := c14Flatten(cases[i-1], 3000); cyclic && i%2 == 0 {
					delete(c.Params, "empty_leaves")
					c14EmptyLeaves = false
					c.Params["parens"] = true
					c14Parens = true
					c.Project = c14GraphProject(cases[i-1])
					c14Parens = false
				}
				// the root file's path is written in four ways in turn (clean, dir/./root, dir//root, dir/sub/../root)
				c.Project.RootSpelling = c14Spellings[i%len(c14Spellings)]
				return c
			}) {
				ev.Exhaustive(fmt.Sprintf("include graphs: all digraphs with ordered out-edge lists of length <= 2 on <= %d files", maxN), true)
			}
			ev.Extra("enumerated_graphs", len(cases))
		})
	}
	t.Run("names-random", c14RandomNames.Run)
	t.Run("graphs-random", c14RandomGraphs.Run)
	t.Run("same-name-chains", c14Chains.Run)
}
