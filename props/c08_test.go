package props

import (
	"bytes"
	"fmt"
	"regexp"
	"sort"
	"strings"
	"testing"

	"pgregory.net/rapid"

	"verif/mdl"
	"verif/vlib"
)

// C08 – layout does not change meaning.
//  (a) model: the same directive tree rendered in two generated layouts gives byte-identical catalogs.
//  (b) corpus: accepted and rejected corpus documents under textual rewrites (line endings, constant indentation prefix,
//      blank / '#' / '###' lines before root blocks, trailing blanks on head lines).

var c08Model = &vlib.Check{
	Prop: "C08", Name: "model-relayout", Quick: 3000, Thorough: 320000,
	Oracle: sameCatalogOracle("c08", "re-laid-out"),
	Gen: func(t *rapid.T) *vlib.Case {
		r := vlib.RapidRnd{T: t}
		doc := mdl.Gen(r)
		tree := mdl.BuildTree(doc, mdl.TreeOpts{R: r})
		if vlib.Chance(r, 1, 4) {
			tree, _, _ = mdl.Macroize(r, tree, 1+r.Intn(2))
		}
		if vlib.Chance(r, 1, 3) {
			// the same project structure (INCLUDE files) in both layouts
			tree, _, _ = mdl.Split(r, tree, 1+r.Intn(3), 1+r.Intn(3))
		}
		l1 := mdl.PlainLayout()
		if vlib.Chance(r, 1, 2) {
			l1 = mdl.RandomLayout(r)
		}
		l2 := mdl.RandomLayout(r)
		a, b := mdl.Render(tree, l1), mdl.Render(tree, l2)
		feats := map[string]any{}
		for k, v := range b.Features {
			feats[k] = v
		}
		return &vlib.Case{Project: renderedProject(a), Project2: renderedProject(b), Params: map[string]any{"features": feats}}
	},
	Classify: func(c *vlib.Case) (bool, []string) {
		feats, _ := c.Params["features"].(map[string]any)
		var cls []string
		sites := 0
		for k, v := range feats {
			cls = append(cls, "layout:"+k)
			sites += asInt(v)
		}
		return len(feats) >= 2 && sites >= 3, cls
	},
}

// ---- corpus rewrites ---------------------------------------------------------------------------------------------

type rewrite struct {
	name string
	// apply returns the rewritten text and a function mapping an original 1-based line to the new line.
	apply func(src []byte, r vlib.Rnd) ([]byte, func(int) int)
}

func splitLinesKeep(src []byte) []string {
	// split keeping the line break with each line (LF, CRLF or CR)
	var out []string
	s := string(src)
	for len(s) > 0 {
		i := strings.IndexAny(s, "\r\n")
		if i < 0 {
			out = append(out, s)
			break
		}
		j := i + 1
		if s[i] == '\r' && j < len(s) && s[j] == '\n' {
			j++
		}
		out = append(out, s[:j])
		s = s[j:]
	}
	return out
}

var headKeywordRe = regexp.MustCompile(`^[ \t]*([A-Za-z]+|[1-5][0-9][0-9])([ \t]|$)`)

// rootSites returns the 0-based line indexes at which a root-level directive starts and before which whole trivia lines
// may be inserted (never directly after a Description text body, whose text would absorb them).
func rootSites(src []byte) []int {
	p := vlib.SingleFile(src)
	c, out, _, done := vlib.BuildCore(p)
	defer done()
	if c == nil || out.Crashed() {
		return nil
	}
	lx := lexAll(src)
	if lx.Failed || lx.Panic != "" {
		return nil
	}
	textEnds := map[int]bool{} // keyword begin positions that directly follow a text lexeme
	for i, l := range lx.Lexemes {
		if l.T == 'K' && i > 0 && lx.Lexemes[i-1].T == 'T' {
			textEnds[l.B] = true
		}
	}
	var starts []int
	for _, d := range c.VerifDirectives() {
		starts = append(starts, int(d.VerifKeywordBegin()))
	}
	for _, d := range c.VerifMacros() {
		starts = append(starts, int(d.VerifKeywordBegin()))
	}
	sort.Ints(starts)
	var sites []int
	for _, s := range starts {
		if textEnds[s] {
			continue
		}
		ln := vlib.LineOf(src, s)
		if ln > 0 {
			sites = append(sites, ln-1)
		}
	}
	return sites
}

var c08Rewrites = []rewrite{
	{"crlf", func(src []byte, _ vlib.Rnd) ([]byte, func(int) int) {
		s := strings.ReplaceAll(strings.ReplaceAll(string(src), "\r\n", "\n"), "\n", "\r\n")
		return []byte(s), func(l int) int { return l }
	}},
	{"cr", func(src []byte, _ vlib.Rnd) ([]byte, func(int) int) {
		s := strings.ReplaceAll(strings.ReplaceAll(string(src), "\r\n", "\n"), "\n", "\r")
		return []byte(s), func(l int) int { return l }
	}},
	{"indent", func(src []byte, r vlib.Rnd) ([]byte, func(int) int) {
		pfx := vlib.Pick(r, []string{"  ", "\t", "    ", " "})
		all := r.Intn(2) == 0 // an editor may indent the empty lines too (lines of blanks only are empty lines)
		var sb strings.Builder
		for _, l := range splitLinesKeep(src) {
			if !all && strings.TrimRight(l, "\r\n") == "" {
				sb.WriteString(l)
			} else {
				sb.WriteString(pfx + l)
			}
		}
		return []byte(sb.String()), func(l int) int { return l }
	}},
	{"trivia-lines", func(src []byte, r vlib.Rnd) ([]byte, func(int) int) {
		sites := rootSites(src)
		if len(sites) == 0 {
			return nil, nil
		}
		eol := "\n"
		switch vlib.LineConvention(src) {
		case "crlf":
			eol = "\r\n"
		case "cr":
			eol = "\r"
		case "mixed":
			return nil, nil
		}
		ins := map[int]int{} // line index -> number of inserted lines before it
		lines := splitLinesKeep(src)
		var sb strings.Builder
		siteSet := map[int]bool{}
		for _, s := range sites {
			siteSet[s] = true
		}
		added := 0
		shift := make([]int, len(lines)+2)
		for i, l := range lines {
			if siteSet[i] && i > 0 && vlib.Chance(r, 2, 3) {
				switch r.Intn(4) {
				case 0:
					sb.WriteString(eol)
					added++
				case 1:
					sb.WriteString("# inserted comment" + eol)
					added++
				case 2:
					sb.WriteString("###" + eol + "inserted block" + eol + "###" + eol)
					added += 3
				case 3:
					sb.WriteString("   \t" + eol)
					added++
				}
				ins[i] = added
			}
			shift[i] = added
			sb.WriteString(l)
		}
		if added == 0 {
			return nil, nil
		}
		nLines := len(lines)
		return []byte(sb.String()), func(l int) int {
			if l-1 >= 0 && l-1 < nLines {
				return l + shift[l-1]
			}
			return l + added
		}
	}},
	{"trailing-blanks", func(src []byte, r vlib.Rnd) ([]byte, func(int) int) {
		// trailing blanks after the last parameter of a head line that has at least one parameter and no annotation
		lx := lexAll(src)
		if lx.Failed || lx.Panic != "" {
			return nil, nil
		}
		var at []int // byte positions (end of a parameter lexeme that is the last lexeme on its line)
		for i, l := range lx.Lexemes {
			if l.T != 'P' {
				continue
			}
			if i+1 < len(lx.Lexemes) && (lx.Lexemes[i+1].T == 'P' || lx.Lexemes[i+1].T == 'A') {
				continue
			}
			e := l.E + 1
			if e < len(src) && (src[e] == '\n' || src[e] == '\r') || e == len(src) {
				at = append(at, e)
			}
		}
		if len(at) == 0 {
			return nil, nil
		}
		var sb bytes.Buffer
		prev := 0
		n := 0
		for _, e := range at {
			if !vlib.Chance(r, 1, 2) {
				continue
			}
			sb.Write(src[prev:e])
			sb.WriteString(vlib.Pick(r, []string{" ", "  ", "\t", " \t "}))
			prev = e
			n++
		}
		sb.Write(src[prev:])
		if n == 0 {
			return nil, nil
		}
		return sb.Bytes(), func(l int) int { return l }
	}},
}

var wsRunRe = regexp.MustCompile(`[ \t]*[\r\n]+[ \t]*`)

func normStrings(n *vlib.ON, collapseNotes bool) *vlib.ON {
	return n.MapStrings(func(path []string, s string) string {
		s = strings.ReplaceAll(strings.ReplaceAll(s, "\r\n", "\n"), "\r", "\n")
		if collapseNotes && len(path) > 1 && path[len(path)-1] == "note" && path[0] == "userEnums" {
			s = wsRunRe.ReplaceAllString(s, "\n")
		}
		return s
	})
}

// scan-time error messages quote the offending byte and differ between "end of file" and "character" forms when a line
// break is appended, so for them only verdict and file are compared; rule and context errors (raised on a keyword after
// scanning) must keep message and (mapped) line.
func isScanTimeMessage(msg string) bool {
	for _, p := range []string{"Invalid character", "Unexpected end of file", "invalid character", "unexpected end of file", "ERROR", "File cannot contain", "required parameter", "incorrect parameter", "the parameter"} {
		if strings.Contains(msg, p) {
			return true
		}
	}
	return false
}

func c08CorpusOracle(c *vlib.Case) *vlib.Violation {
	b1 := vlib.Build(c.Project)
	defer b1.Close()
	b2 := vlib.Build(c.Project2)
	defer b2.Close()
	if b1.Out.Crashed() || b2.Out.Crashed() {
		return nil
	}
	kind, _ := c.Params["rewrite"].(string)
	if b1.Out.OK() != b2.Out.OK() {
		return vlib.V("c08:verdict-changes:"+kind, "rewrite %s: original %s, rewritten %s", kind, b1.Out.Brief(), b2.Out.Brief())
	}
	if b1.Out.OK() {
		j1, e1 := b1.Api.ToJson()
		j2, e2 := b2.Api.ToJson()
		if e1 != nil || e2 != nil {
			return nil
		}
		a, _ := vlib.ParseOrdered(j1)
		b, _ := vlib.ParseOrdered(j2)
		a, b = normStrings(a, false), normStrings(b, false)
		if hasRegexType(c.Project) {
			a, b = a.StripExamples(), b.StripExamples()
		}
		if d := vlib.FirstDiff(a, b, ""); d != "" {
			if strings.Contains(kind, "indent") && vlib.FirstDiff(normStrings(a, true), normStrings(b, true), "") == "" {
				// the only differences are multi-line notes of ENUM values, which keep the indentation of the source (S3)
				return vlib.V("c08:enum-note-keeps-source-indentation", "rewrite %s changes the catalog: %s", kind, d)
			}
			return vlib.V("c08:catalog-differs:"+kind, "rewrite %s changes the catalog: %s", kind, d)
		}
		return nil
	}
	o1, o2 := b1.Out, b2.Out
	if isScanTimeMessage(o1.Msg) || isScanTimeMessage(o2.Msg) {
		return nil
	}
	if o1.Msg != o2.Msg {
		return vlib.V("c08:error-message-changes:"+kind, "rewrite %s: original %s, rewritten %s", kind, o1.Brief(), o2.Brief())
	}
	if want := asInt(c.Params["expect_line"]); want > 0 && o2.Line != want {
		return vlib.V("c08:error-does-not-move-with-text:"+kind, "rewrite %s: original error at line %d should move to line %d, reported line %d (%s)", kind, o1.Line, want, o2.Line, o2.Brief())
	}
	return nil
}

var c08Corpus = &vlib.Check{
	Prop: "C08", Name: "corpus-rewrite", Quick: 4000, Thorough: 300000,
	Oracle: c08CorpusOracle,
	Gen: func(t *rapid.T) *vlib.Case {
		r := vlib.RapidRnd{T: t}
		loadSeeds()
		src := vlib.Pick(r, seedDocs)
		if vlib.LineConvention(src) == "mixed" {
			return nil
		}
		// composition of 1..3 rewrites
		cur := src
		var names []string
		line := 0
		p0 := vlib.SingleFile(src)
		b0 := vlib.Build(p0)
		if b0.Out.Err() {
			line = b0.Out.Line
		}
		b0.Close()
		k := 1 + r.Intn(3)
		for i := 0; i < k; i++ {
			rw := vlib.Pick(r, c08Rewrites)
			out, lm := rw.apply(cur, r)
			if out == nil {
				continue
			}
			if line > 0 {
				line = lm(line)
			}
			cur = out
			names = append(names, rw.name)
		}
		if len(names) == 0 {
			return nil
		}
		kind := strings.Join(names, "+")
		return &vlib.Case{Project: p0, Project2: vlib.SingleFile(cur), Params: map[string]any{"rewrite": kind, "rewrites": strings.Join(names, "+"), "expect_line": line}}
	},
	Classify: func(c *vlib.Case) (bool, []string) {
		names := strings.Split(fmt.Sprint(c.Params["rewrites"]), "+")
		var cls []string
		for _, n := range names {
			cls = append(cls, "rewrite:"+n)
		}
		return len(names) >= 2, cls
	},
}

func init() { vlib.Register(c08Model, c08Corpus) }

func TestC08(t *testing.T) {
	t.Run("model-relayout", c08Model.Run)
	t.Run("corpus-rewrite", c08Corpus.Run)
}

// c08Shapes: two hand-written renderings of one document that differ in one layout shape the generators do not produce
// (because an open finding is known for it).  The signature names the shape, so that the finding is matched exactly.
var c08Shapes = &vlib.Check{
	Prop: "C08", Name: "shape-pair",
	Oracle: func(c *vlib.Case) *vlib.Violation {
		v := sameCatalogOracle("c08", "other layout")(c)
		if v == nil {
			return nil
		}
		shape, _ := c.Params["shape"].(string)
		return vlib.V("c08:layout-changes-catalog:"+shape, "%s", v.Detail)
	},
}

func init() { vlib.Register(c08Shapes) }
