package props

import (
	"fmt"
	"strings"
	"testing"

	"pgregory.net/rapid"

	"verif/vlib"
)

// C07 – every error carries a truthful location and include trace.

func c07Oracle(c *vlib.Case) *vlib.Violation {
	b := vlib.Build(c.Project)
	defer b.Close()
	o := b.Out
	if !o.Err() {
		return nil
	}
	p := vlib.WithPlayground(c.Project)
	if o.FileNil {
		return vlib.V("c07:no-file", "error %q carries no file", o.Msg)
	}
	content, ok := p.Files[o.File]
	if !ok {
		if p.NoRoot && o.File == p.Root {
			return nil // unreadable root: there is no content to locate anything in
		}
		return vlib.V("c07:file-not-in-project", "error %q names file %q which is not a file of the project %v", o.Msg, o.FileAbs, p.Names())
	}
	if o.Index < 0 || o.Index > len(content) {
		return vlib.V("c07:index-outside-file", "error %q: index %d, file %s has %d bytes", o.Msg, o.Index, o.File, len(content))
	}
	line, col, quote, uniform := vlib.RefLocation(content, o.Index)
	if uniform {
		if o.Line != line || o.Column != col {
			return vlib.V("c07:line-column", "error %q at %s index %d: reported line %d column %d, the index really has line %d column %d (%s line endings)",
				o.Msg, o.File, o.Index, o.Line, o.Column, line, col, vlib.LineConvention(content))
		}
		blankOnly := quote == "" || quote == "..."
		if o.Quote != quote && !(blankOnly && strings.TrimLeft(o.Quote, " \t\r\n") == quote) {
			// (a line - or the quoted first 197 bytes of a long line - made of blanks only may be quoted as it is or with
			// the blanks trimmed: the dependency's TrimSpacesFromLeft leaves an all-blank text untouched)
			return vlib.V("c07:quote", "error %q at %s index %d (line %d): quote %q, the line really reads %q", o.Msg, o.File, o.Index, line, clipStr(o.Quote, 260), clipStr(quote, 260))
		}
	}
	// a planted fault that is recognised by its token in the message lies in the file it was planted in
	if ff, _ := c.Params["fault_file"].(string); ff != "" {
		for _, tok := range []string{"@undefinedPathType", "@undefinedInBody", "@undefinedType", "@noSuchTag"} {
			if !strings.Contains(o.Msg, tok) {
				continue
			}
			if o.File != ff {
				return vlib.V("c07:fault-in-other-file", "error %q was planted in %s and is reported in %s (line %d, quote %q)", o.Msg, ff, o.File, o.Line, clipStr(o.Quote, 80))
			}
			if tok == "@undefinedPathType" && uniform {
				// the Path keyword whose body (the next line) holds the reference
				next := vlib.LineText(content, o.Line+1)
				if strings.TrimSpace(o.Quote) != "Path" || !strings.Contains(next, tok) {
					return vlib.V("c07:fault-on-other-directive", "error %q belongs to the Path directive whose body holds the reference; reported at %s line %d, quote %q, next line %q", o.Msg, ff, o.Line, clipStr(o.Quote, 80), clipStr(next, 80))
				}
			}
		}
	}
	// include trace
	_, trace := vlib.ParseTrace(o.ErrText, p)
	if o.File == p.Root && len(trace) < 2 {
		return nil // (the root file may also be reached through INCLUDE: then the chain below is validated)
	}
	if len(trace) < 2 {
		return vlib.V("c07:trace:missing", "error %q is located in the included file %s but carries no include trace: %q", o.Msg, o.File, o.ErrText)
	}
	if trace[0].File != o.File || (uniform && trace[0].Line != o.Line) {
		return vlib.V("c07:trace:head", "first trace entry %v differs from the error location %s:%d", trace[0], o.File, o.Line)
	}
	if trace[len(trace)-1].File != p.Root {
		return vlib.V("c07:trace:not-rooted", "trace %v does not end in the root file %s", trace, p.Root)
	}
	for i := 1; i < len(trace); i++ {
		child, parent := trace[i-1].File, trace[i]
		if vlib.LineConvention(p.Files[parent.File]) == "mixed" {
			continue
		}
		got := vlib.IncludesOnLine(p, parent.File, parent.Line)
		if got == child {
			continue
		}
		if real := vlib.FirstIncludeLineOf(p, parent.File, child); got != "" && real > parent.Line {
			return vlib.V("c07:trace:line-of-earlier-include", "trace %v: %s:%d is an earlier INCLUDE of %s (it includes %q); %s is included at line %d", trace, parent.File, parent.Line, parent.File, got, child, real)
		}
		return vlib.V("c07:trace:wrong-include-line", "trace %v: line %d of %s does not INCLUDE %s (it includes %q)", trace, parent.Line, parent.File, child, got)
	}
	return nil
}

func clipStr(s string, n int) string {
	if len(s) > n {
		return s[:n] + "…"
	}
	return s
}

func c07Classify(c *vlib.Case) (bool, []string) {
	b := vlib.Build(c.Project)
	defer b.Close()
	o := b.Out
	if !o.Err() {
		return false, []string{"not-rejected"}
	}
	cls := []string{"rejected"}
	content := c.Project.Files[o.File]
	cls = append(cls, "eol-"+vlib.LineConvention(content))
	nt := o.Index > 0 && strings.ContainsAny(string(content), "\r\n")
	if o.Index == len(content) {
		cls = append(cls, "at-eof")
	}
	if o.File != c.Project.Root {
		cls = append(cls, "in-included-file")
		_, tr := vlib.ParseTrace(o.ErrText, c.Project)
		cls = append(cls, fmt.Sprintf("trace-depth-%d", len(tr)-1))
	}
	if len(o.Quote) > 150 {
		cls = append(cls, "long-line")
	}
	return nt, cls
}

// genIncludeTreeWithFault: a valid multi-file project (root + pieces included at several depths, some pieces twice)
// with one directive-level fault placed in one of the files.
func genIncludeTreeWithFault(r vlib.Rnd) (*vlib.Project, string) {
	nl := vlib.Pick(r, []string{"\n", "\n", "\r\n", "\r"})
	p := &vlib.Project{Root: "root.jst", Files: map[string][]byte{}}
	names := []string{"a.jst", "b.jst", "sub/c.jst", "sub/d.jst", "sub/deep/e.jst"}
	n := 2 + r.Intn(len(names)-1)
	names = names[:n]
	faultFile := r.Intn(n + 1) // n = root
	// each piece: a few top-level blocks
	blockID := 0
	block := func() string {
		blockID++
		switch r.Intn(5) {
		case 4:
			// a multi-line Description: its text is normalised from the file's bytes when the catalog is built
			return fmt.Sprintf("GET /d%d%s  Description%s    first line%s    second line%s%s    third line%s  200 any%s", blockID, nl, nl, nl, nl, nl, nl, nl)
		case 0:
			return fmt.Sprintf("TYPE @t%d%s  {\"a\": %d}%s", blockID, nl, blockID, nl)
		case 1:
			return fmt.Sprintf("GET /p%d%s  200 any%s", blockID, nl, nl)
		case 2:
			return fmt.Sprintf("# comment %d%s%s", blockID, nl, nl)
		default:
			return fmt.Sprintf("ENUM @e%d%s  [%d]%s", blockID, nl, blockID, nl)
		}
	}
	// long: the line that carries the error is sometimes longer than the 200 bytes an error quotes
	long := func() string {
		if vlib.Chance(r, 1, 3) {
			return " // " + strings.Repeat(vlib.Pick(r, []string{"x", "long annotation ", "é"}), 70+r.Intn(200))
		}
		return ""
	}
	fault := func() string {
		switch r.Intn(8) {
		case 7:
			// an error found when the path variables of an interaction are assembled from the Path directives of two
			// places: it belongs to the Path directive that holds the undefined reference, not to the first one
			return "GET /lp/{lid}" + nl + "  Path" + nl + "    {\"lid\": 1}" + nl + "  200 any" + nl +
				"GET /lp/{lid}/y/{lk}" + long() + nl + "  Path" + nl + "    {\"lk\": @undefinedPathType | @undefinedOther}" + nl + "  200 any" + nl
		case 6:
			// an error of the catalog building phase (after the Description texts of the file have been processed)
			return "GET /late" + nl + "  200" + nl + "    {\"x\": @undefinedInBody}" + nl
		case 0:
			return "TYPE @dup" + nl + "  1" + nl + "TYPE @dup" + long() + nl + "  2" + nl
		case 1:
			return "TYPE @bad" + long() + nl + "  {\"x\": @undefinedType}" + nl
		case 2:
			return "GET /q" + nl + "  Tags @noSuchTag" + nl + "  200 any" + nl
		case 3:
			return "Body any" + long() + nl // incorrect context at root
		case 4:
			return "GET /long " + "// " + strings.Repeat("x", 190+r.Intn(40)) + nl + "  Query" + nl + "    1" + nl
		default:
			return "URL /u" + nl + "  GET" + nl + "    200 any" + nl + "  GET" + long() + nl + "    200 any" + nl
		}
	}
	// include structure: root includes a subset, deeper files include later ones (acyclic)
	bodies := make([]strings.Builder, n+1)
	bodies[n].WriteString("JSIGHT 0.3" + nl)
	for i := n; i >= 0; i-- {
		if i < n && i != faultFile || i == n {
			k := 1 + r.Intn(2)
			for j := 0; j < k; j++ {
				bodies[i].WriteString(block())
			}
		}
	}
	faultAfterIncludes := vlib.Chance(r, 1, 2)
	if !faultAfterIncludes {
		bodies[faultFile].WriteString(fault())
	}
	// edges: file i (root = n) may include files with smaller index... keep acyclic by only including lower indices
	included := map[int]bool{}
	var addEdges func(from int)
	addEdges = func(from int) {
		lim := from
		if from == n {
			lim = n
		}
		for t := 0; t < lim; t++ {
			if vlib.Chance(r, 1, 2) || (from == n && !included[t] && t == faultFile) {
				from2 := "root.jst"
				if from < n {
					from2 = names[from]
				}
				target := relTo(from2, names[t])
				if strings.HasPrefix(target, "sub/") && strings.HasPrefix(from2, "sub/") {
					continue
				}
				if from < n && !strings.HasPrefix(names[t], dirOf(from2)) {
					continue
				}
				if vlib.Chance(r, 1, 3) {
					bodies[from].WriteString(block())
				}
				if vlib.Chance(r, 1, 6) {
					// a block comment between the keyword and the file name, over several lines
					bodies[from].WriteString("INCLUDE ###" + nl + "  which file" + nl + "### " + target + nl)
				} else {
					bodies[from].WriteString("INCLUDE " + target + nl)
				}
				included[t] = true
			}
		}
	}
	for i := n; i >= 1; i-- {
		addEdges(i)
	}
	if faultFile < n && !included[faultFile] {
		bodies[n].WriteString("INCLUDE " + names[faultFile] + nl)
	}
	if faultAfterIncludes {
		// the faulty directive follows the (nested) INCLUDEs of its file
		bodies[faultFile].WriteString(fault())
	}
	for i := 0; i < n; i++ {
		p.Files[names[i]] = []byte(bodies[i].String())
	}
	p.Files["root.jst"] = []byte(bodies[n].String())
	ff := "root.jst"
	if faultFile < n {
		ff = names[faultFile]
	}
	return p, ff
}

func dirOf(f string) string {
	if i := strings.LastIndex(f, "/"); i >= 0 {
		return f[:i+1]
	}
	return ""
}

func toEOL(b []byte, r vlib.Rnd) []byte {
	switch r.Intn(3) {
	case 1:
		return []byte(strings.ReplaceAll(strings.ReplaceAll(string(b), "\r\n", "\n"), "\n", "\r\n"))
	case 2:
		return []byte(strings.ReplaceAll(strings.ReplaceAll(string(b), "\r\n", "\n"), "\n", "\r"))
	}
	return b
}

var c07Stream = &vlib.Check{
	Prop: "C07", Name: "locations", Quick: 24000, Thorough: 1600000,
	Oracle: c07Oracle, Classify: c07Classify,
	Gen: func(t *rapid.T) *vlib.Case {
		r := vlib.RapidRnd{T: t}
		switch r.Intn(8) {
		case 0, 1:
			return &vlib.Case{Project: vlib.SingleFile(toEOL(genMutated(r, 3000), r))}
		case 2:
			return &vlib.Case{Project: vlib.SingleFile(toEOL(genSoup(r, 8), r))}
		case 3:
			doc, _ := genMultiFault(r)
			return &vlib.Case{Project: vlib.SingleFile(toEOL(doc, r))}
		case 4:
			return &vlib.Case{Project: genIncludeProject(r, true)}
		default:
			p, ff := genIncludeTreeWithFault(r)
			return &vlib.Case{Project: p, Params: map[string]any{"fault_file": ff}}
		}
	},
}

var c07Corpus = &vlib.Check{Prop: "C07", Name: "corpus", Oracle: c07Oracle, Classify: c07Classify}

func init() { vlib.Register(c07Stream, c07Corpus) }

func TestC07(t *testing.T) {
	if vlib.Shard() == 0 {
		t.Run("corpus", func(t *testing.T) {
			// every corpus project under LF (as is), CRLF and CR
			cc := vlib.Corpus()
			i := 0
			c07Corpus.RunEnum(t, func() *vlib.Case {
				if i >= 3*len(cc) {
					return nil
				}
				e, mode := cc[i/3], i%3
				i++
				p := e.Project.Clone()
				for n, b := range p.Files {
					s := strings.ReplaceAll(string(b), "\r\n", "\n")
					switch mode {
					case 1:
						s = strings.ReplaceAll(s, "\n", "\r\n")
					case 2:
						s = strings.ReplaceAll(s, "\n", "\r")
					}
					p.Files[n] = []byte(s)
				}
				return &vlib.Case{Project: p, Note: e.Path}
			})
		})
	}
	t.Run("locations", c07Stream.Run)
}
