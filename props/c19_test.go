package props

import (
	"fmt"
	"regexp"
	"sort"
	"strings"
	"testing"

	"pgregory.net/rapid"

	"github.com/jsightapi/jsight-api-core/directive"

	"verif/vlib"
)

// C19 – banned directives are always rejected and never change anything else.

var c19Kinds = []string{
	"JSIGHT", "INFO", "Title", "Version", "Description", "SERVER", "BaseUrl", "URL", "GET", "POST", "PUT", "PATCH", "DELETE", "Body",
	"Request", "HTTP-response-code", "Path", "Headers", "Query", "TYPE", "ENUM", "MACRO", "PASTE", "INCLUDE", "Protocol", "Method",
	"Params", "Result", "TAG", "Tags", "OperationId",
}

// feature blocks: valid snippets; placement decides where a block is written.
type c19Block struct {
	text    string // top-level block (no indentation), uses %d for a unique number
	inMacro bool   // may be written as the body of a MACRO pasted at root level
}

var c19Blocks = []c19Block{
	{"INFO\n  Title \"T%d\"\n  Version 1.%d\n  Description\n    about the api\n", false}, // only one INFO per document
	{"SERVER @s%d\n  BaseUrl \"https://h%d.example\"\n", true},
	{"TAG @g%d\n  Description\n    tag text\n", false},
	{"TYPE @t%d\n  {\"a\": %d}\n", true},
	{"TYPE @r%d regex\n  /a%d+/\n", true},
	{"ENUM @e%d\n  [%d, \"x\"]\n", true},
	{"URL /u%d/{id}\n  Path\n    {\"id\": %d}\n  GET\n    200\n      Headers\n        {\"h\": 1}\n      Body any\n  DELETE\n    204 empty\n", true},
	{"POST /p%d\n  Description\n    creates %d\n  Query \"a=1\"\n    {\"a\": 1}\n  Request\n    Headers\n      {\"h\": 1}\n    Body\n      {\"b\": 2}\n  OperationId op%d\n  201 any\n", true},
	{"PUT /q%d\n  Request any\n  200 any\nPATCH /q%d\n  200 any\n", true},
	{"URL /rpc%d\n  Protocol json-rpc-2.0\n  Method m%d\n    Params\n      {}\n    Result\n      1\n", false},
	{"GET /w%d\n  Tags @gg\n  200 any\n", false}, // needs TAG @gg (added with it)
}

var c19KeywordRe = regexp.MustCompile(`^[ \t]*([A-Za-z]+|[1-5][0-9][0-9])([ \t]|$)`)

// c19Occurrences scans the rendered files for directive keywords (bodies of the snippets never start with a keyword).
func c19Occurrences(p *vlib.Project) map[string][][2]string {
	occ := map[string][][2]string{}
	for _, name := range p.Names() {
		for i, line := range strings.Split(string(p.Files[name]), "\n") {
			m := c19KeywordRe.FindStringSubmatch(line)
			if m == nil {
				continue
			}
			k := m[1]
			if kwIsCode(k) {
				k = "HTTP-response-code"
			} else if !kwIsKeyword(k) {
				continue
			}
			occ[k] = append(occ[k], [2]string{name, fmt.Sprint(i + 1)})
		}
	}
	return occ
}

// c19TreeOccurrences lists the directives of an arbitrary (e.g. corpus) project through the read-only tree accessors of an
// unbanned build; INCLUDE directives, which never enter the tree, are found by their line pattern.
func c19TreeOccurrences(p *vlib.Project) map[string][][2]string {
	base := p.Clone()
	base.Banned = nil
	c, out, dir, done := vlib.BuildCore(base)
	defer done()
	occ := map[string][][2]string{}
	if c == nil || out.Crashed() {
		return occ
	}
	q := vlib.WithPlayground(p)
	var walk func(d *directive.Directive)
	walk = func(d *directive.Directive) {
		file := vlib.RelName(d.VerifKeywordFile(), dir)
		line := vlib.LineOf(q.Files[file], int(d.VerifKeywordBegin()))
		k := d.Type().String()
		occ[k] = append(occ[k], [2]string{file, fmt.Sprint(line)})
		for _, ch := range d.Children {
			walk(ch)
		}
	}
	for _, d := range c.VerifDirectives() {
		walk(d)
	}
	for _, d := range c.VerifMacros() {
		walk(d)
	}
	for _, name := range q.Names() {
		if _, own := p.Files[name]; !own && name != q.Root {
			continue // a playground file the project does not reach
		}
		sep := "\n"
		if vlib.LineConvention(q.Files[name]) == "cr" {
			sep = "\r"
		}
		for i := range strings.Split(string(q.Files[name]), sep) {
			if vlib.IncludesOnLine(q, name, i+1) != "" {
				occ["INCLUDE"] = append(occ["INCLUDE"], [2]string{name, fmt.Sprint(i + 1)})
			}
		}
	}
	return occ
}

func indent(s, ind string) string {
	lines := strings.Split(strings.TrimRight(s, "\n"), "\n")
	for i := range lines {
		lines[i] = ind + lines[i]
	}
	return strings.Join(lines, "\n") + "\n"
}

// genC19Project composes a valid project; each chosen block is written directly, in an INCLUDEd file, in a pasted MACRO or
// in a MACRO that is never pasted.
func genC19Project(r vlib.Rnd) *vlib.Project {
	p := &vlib.Project{Root: "root.jst", Files: map[string][]byte{}}
	var root, defs strings.Builder
	root.WriteString("JSIGHT 0.3\n")
	n := 0
	usedInfo := false
	files := 0
	for i, bl := range c19Blocks {
		if !vlib.Chance(r, 1, 2) {
			continue
		}
		if i == 0 {
			if usedInfo {
				continue
			}
			usedInfo = true
		}
		n++
		txt := bl.text
		cnt := strings.Count(txt, "%d")
		args := make([]any, cnt)
		for j := range args {
			args[j] = n
		}
		txt = fmt.Sprintf(txt, args...)
		if i == len(c19Blocks)-1 {
			txt = "TAG @gg\n" + txt
		}
		place := r.Intn(5)
		if !bl.inMacro && (place == 2 || place == 3) {
			place = r.Intn(2)
		}
		switch place {
		case 0, 4: // direct
			root.WriteString(txt)
		case 1: // in an included file (possibly nested one level deeper)
			files++
			fn := fmt.Sprintf("inc%d.jst", files)
			if vlib.Chance(r, 1, 3) {
				fn2 := fmt.Sprintf("sub/deep%d.jst", files)
				p.Files[fn] = []byte("INCLUDE " + fn2 + "\n")
				p.Files[fn2] = []byte(txt)
			} else {
				p.Files[fn] = []byte(txt)
			}
			root.WriteString("INCLUDE " + fn + "\n")
		case 2: // in a MACRO pasted at root level
			fmt.Fprintf(&defs, "MACRO @m%d\n(\n%s)\n", n, indent(txt, "  "))
			fmt.Fprintf(&root, "PASTE @m%d\n", n)
		case 3: // in a MACRO that is never pasted
			fmt.Fprintf(&defs, "MACRO @unused%d\n(\n%s)\n", n, indent(txt, "  "))
		}
	}
	// a response macro pasted inside a method, so that PASTE also occurs nested
	if vlib.Chance(r, 1, 2) {
		root.WriteString("GET /z\n  PASTE @resp\n")
		defs.WriteString("MACRO @resp\n(\n  200 any\n  404\n    Body empty\n)\n")
	}
	if n == 0 {
		root.WriteString("GET /only\n  200 any\n")
	}
	if vlib.Chance(r, 1, 2) {
		p.Files["root.jst"] = []byte(root.String() + defs.String())
	} else {
		p.Files["root.jst"] = []byte(strings.Replace(root.String(), "JSIGHT 0.3\n", "JSIGHT 0.3\n"+defs.String(), 1))
	}
	if len(p.Files) == 1 {
		p.Dirs = nil
	}
	return p
}

func c19Oracle(c *vlib.Case) *vlib.Violation {
	p := c.Project
	base := p.Clone()
	base.Banned = nil
	b0 := vlib.Build(base)
	k0 := outcomeKey(b0)
	ok0 := b0.Out.OK()
	b0.Close()
	if !ok0 {
		return nil // the property is checked on projects that are valid without the option
	}
	b1 := vlib.Build(p)
	defer b1.Close()
	if b1.Out.Crashed() {
		return nil
	}
	occ := c19Occurrences(p)
	if c.Params["tree"] == true {
		occ = c19TreeOccurrences(p)
	}
	var present []string
	for _, k := range p.Banned {
		if len(occ[k]) > 0 {
			present = append(present, k)
		}
	}
	if len(present) == 0 {
		if k1 := outcomeKey(b1); k1 != k0 {
			return vlib.V("c19:ban-changes-unrelated-project", "banned %v, none of them occurs, but the result differs:\n without: %s\n with:    %s", p.Banned, pretty(k0), pretty(k1))
		}
		return nil
	}
	o := b1.Out
	if o.OK() {
		return vlib.V("c19:banned-directive-accepted:"+strings.Join(present, "+"), "banned %v; %v occur at %v, but the project is accepted", p.Banned, present, occOf(occ, present))
	}
	for _, k := range present {
		if o.Msg == "the directive is not allowed ("+k+")" {
			for _, at := range occ[k] {
				if at[0] == o.File && at[1] == fmt.Sprint(o.Line) {
					// the error is on the banned directive; its index, line, column, quote and include trace must be
					// truthful as for any error (the location oracle of C07 on the same build)
					if v := c07Oracle(c); v != nil {
						return vlib.V("c19:not-allowed-error-location:"+strings.TrimPrefix(v.Sig, "c07:"), "banned %v: %s", p.Banned, v.Detail)
					}
					return nil
				}
			}
			return vlib.V("c19:not-allowed-error-misplaced:"+k, "banned %v: error %s is not located on an occurrence of %s (%v)", p.Banned, o.Brief(), k, occ[k])
		}
	}
	return vlib.V("c19:other-error-instead-of-ban:"+strings.Join(present, "+"), "banned %v; %v occur at %v, but the error is %s", p.Banned, present, occOf(occ, present), o.Brief())
}

func occOf(occ map[string][][2]string, kk []string) string {
	var ss []string
	for _, k := range kk {
		ss = append(ss, fmt.Sprintf("%s@%v", k, occ[k]))
	}
	return strings.Join(ss, " ")
}

func c19Classify(c *vlib.Case) (bool, []string) {
	p := c.Project
	occ := c19Occurrences(p)
	rootOcc := map[string]bool{}
	for k, at := range occ {
		for _, a := range at {
			if a[0] == p.Root {
				rootOcc[k] = true
			}
		}
	}
	present := 0
	indirectOnly := false
	for _, k := range p.Banned {
		if len(occ[k]) > 0 {
			present++
			if !rootOcc[k] {
				indirectOnly = true
			}
		}
	}
	cls := []string{fmt.Sprintf("ban-size-%d", len(p.Banned)), fmt.Sprintf("present-%d", present)}
	// in a macro body? (approximation: the occurrence line is indented inside a "MACRO ... ( ... )" block) – counted via text
	src := string(p.Files[p.Root])
	if strings.Contains(src, "MACRO @unused") {
		cls = append(cls, "has-unused-macro")
	}
	if len(p.Files) > 1 {
		cls = append(cls, "has-include")
	}
	nt := indirectOnly || (len(p.Banned) == 2 && present == 1) || (present > 0 && (strings.Contains(src, "MACRO") || len(p.Files) > 1))
	if indirectOnly {
		cls = append(cls, "banned-kind-only-in-included-file")
	}
	return nt, cls
}

func c19BanSets() [][]string {
	var sets [][]string
	for i := range c19Kinds {
		sets = append(sets, []string{c19Kinds[i]})
	}
	for i := range c19Kinds {
		for j := i + 1; j < len(c19Kinds); j++ {
			sets = append(sets, []string{c19Kinds[i], c19Kinds[j]})
		}
	}
	return sets
}

var c19Check = &vlib.Check{
	Prop: "C19", Name: "bans", Quick: 30, Thorough: 1600,
	Oracle: c19Oracle, Classify: c19Classify,
	SampleOf: func(c *vlib.Case) any {
		return map[string]any{"banned": c.Project.Banned, "project": c.Project.Summary(500)}
	},
}

// c19Random: random ban sets (size 1..3) over random projects, incl. corpus projects.
var c19Random = &vlib.Check{
	Prop: "C19", Name: "bans-random", Quick: 4000, Thorough: 300000,
	Oracle: c19Oracle, Classify: c19Classify,
	SampleOf: func(c *vlib.Case) any {
		return map[string]any{"banned": c.Project.Banned, "project": c.Project.Summary(500)}
	},
	Gen: func(t *rapid.T) *vlib.Case {
		r := vlib.RapidRnd{T: t}
		var p *vlib.Project
		params := map[string]any{}
		if vlib.Chance(r, 1, 3) {
			p = vlib.Pick(r, acceptedProjects()).Clone()
			params["tree"] = true
		} else {
			p = genC19Project(r)
		}
		k := 1 + r.Intn(3)
		seen := map[string]bool{}
		for i := 0; i < k; i++ {
			x := vlib.Pick(r, c19Kinds)
			if !seen[x] {
				seen[x] = true
				p.Banned = append(p.Banned, x)
			}
		}
		sort.Strings(p.Banned)
		p.BanSplit = vlib.Chance(r, 1, 2) // one option per kind instead of one option for the whole set
		p.ViaPath = vlib.Chance(r, 1, 3)  // the build is started from the path of the root file (kit.NewJapi), options included
		return &vlib.Case{Project: p, Params: params}
	},
}

// c19Faulty: a banned INCLUDE is refused as INCLUDE whatever is wrong with its own parameter or file.  "Every project in
// which a banned directive occurs is rejected with the not-allowed error on that directive" includes the projects whose
// banned INCLUDE could not have been resolved anyway: the fault lies inside the banned directive, so no other error
// precedes it in the text.  (For the other kinds the ban is enforced when the finished tree is added to the catalog,
// after scan- and compile-time errors; this sub-check is about INCLUDE only, whose ban is enforced at its keyword.)
var c19IncludeFaults = []struct{ name, line string }{
	{"missing-file", "INCLUDE nothere.jst"},
	{"missing-file-quoted", "INCLUDE \"no such.jst\""},
	{"no-parameter", "INCLUDE"},
	{"upward-path", "INCLUDE ../up.jst"},
	{"directory", "INCLUDE adir"},
	{"empty-name", "INCLUDE \"\""},
	{"absolute-path", "INCLUDE /etc/hostname"},
	{"two-parameters", "INCLUDE nothere.jst more"},
	{"backslash-name", "INCLUDE a\\b.jst"},
	{"annotation-only", "INCLUDE // note"},
}

var c19Faulty = &vlib.Check{
	Prop: "C19", Name: "banned-include-faulty", Quick: 600, Thorough: 40000,
	SampleOf: func(c *vlib.Case) any {
		return map[string]any{"banned": c.Project.Banned, "fault": c.Params["fault"], "place": c.Params["place"], "project": c.Project.Summary(400)}
	},
	Gen: func(t *rapid.T) *vlib.Case {
		r := vlib.RapidRnd{T: t}
		p := genC19Project(r)
		f := vlib.Pick(r, c19IncludeFaults)
		root := string(p.Files[p.Root])
		place := vlib.Pick(r, []string{"first", "first", "last", "nested", "in-file", "in-macro"})
		switch place {
		case "first": // before every other directive and every other INCLUDE
			root = strings.Replace(root, "JSIGHT 0.3\n", "JSIGHT 0.3\n"+f.line+"\n", 1)
		case "last":
			root += f.line + "\n"
		case "nested":
			root += "URL /fi\n  " + f.line + "\n"
		case "in-file":
			p.Files["faulty/part.jst"] = []byte("TYPE @fi\n  1\n" + f.line + "\n")
			root += "INCLUDE faulty/part.jst\n"
		case "in-macro":
			root += "MACRO @fi\n(\n  " + f.line + "\n)\n"
		}
		p.Files[p.Root] = []byte(root)
		p.Dirs = append(p.Dirs, "adir")
		p.Banned = []string{"INCLUDE"}
		if vlib.Chance(r, 1, 2) {
			if x := vlib.Pick(r, c19Kinds); x != "INCLUDE" {
				p.Banned = append(p.Banned, x)
				sort.Strings(p.Banned)
			}
		}
		p.BanSplit = vlib.Chance(r, 1, 2)
		p.ViaPath = vlib.Chance(r, 1, 3)
		return &vlib.Case{Project: p, Params: map[string]any{"fault": f.name, "place": place}}
	},
	Oracle: func(c *vlib.Case) *vlib.Violation {
		p := c.Project
		b := vlib.Build(p)
		defer b.Close()
		o := b.Out
		if o.Crashed() {
			return nil // C01's business
		}
		occ := c19Occurrences(p)
		var present []string
		for _, k := range p.Banned {
			if len(occ[k]) > 0 {
				present = append(present, k)
			}
		}
		if o.OK() {
			return vlib.V("c19:banned-directive-accepted:INCLUDE", "banned %v; INCLUDE occurs at %v, but the project is accepted", p.Banned, occ["INCLUDE"])
		}
		for _, k := range present {
			if o.Msg == "the directive is not allowed ("+k+")" {
				for _, at := range occ[k] {
					if at[0] == o.File && at[1] == fmt.Sprint(o.Line) {
						return nil
					}
				}
				return vlib.V("c19:not-allowed-error-misplaced:"+k, "banned %v: error %s is not located on an occurrence of %s (%v)", p.Banned, o.Brief(), k, occ[k])
			}
		}
		return vlib.V("c19:other-error-instead-of-ban:INCLUDE:faulty-"+fmt.Sprint(c.Params["fault"]), "banned %v; INCLUDE occurs at %v (one of them faulty: %v, %v), but the error is %s", p.Banned, occ["INCLUDE"], c.Params["fault"], c.Params["place"], o.Brief())
	},
	Classify: func(c *vlib.Case) (bool, []string) {
		// non-trivial: without the ban the project is rejected because of the faulty INCLUDE (the fault is real), i.e. the
		// ban has to win against another error
		base := c.Project.Clone()
		base.Banned = nil
		b0 := vlib.Build(base)
		defer b0.Close()
		cls := []string{"fault-" + fmt.Sprint(c.Params["fault"]), "place-" + fmt.Sprint(c.Params["place"])}
		if b0.Out.OK() {
			cls = append(cls, "fault-not-a-fault-without-ban")
		}
		return !b0.Out.OK() && !b0.Out.Crashed(), cls
	},
}

func init() { vlib.Register(c19Check, c19Random, c19Faulty) }

func TestC19(t *testing.T) {
	ev := vlib.Ev("C19")
	// all 496 ban sets of size <= 2 x generated projects (the projects are drawn by rapid, the sets are enumerated)
	t.Run("bans", func(t *testing.T) {
		sets := c19BanSets()
		ck := *c19Check
		ck.Gen = nil
		var projects []*vlib.Project
		gen := &vlib.Check{Prop: "C19", Name: "bans", Quick: c19Check.Quick, Thorough: c19Check.Thorough,
			Oracle: func(*vlib.Case) *vlib.Violation { return nil },
			Gen: func(rt *rapid.T) *vlib.Case {
				p := genC19Project(vlib.RapidRnd{T: rt})
				projects = append(projects, p)
				return nil
			}}
		gen.Run(t)
		pi, si := 0, 0
		done := c19Check.RunEnum(t, func() *vlib.Case {
			for pi < len(projects) {
				if si >= len(sets) {
					pi, si = pi+1, 0
					continue
				}
				p := projects[pi].Clone()
				p.Banned = sets[si]
				p.BanSplit = si%2 == 1
				p.ViaPath = si%3 == 2
				si++
				return &vlib.Case{Project: p}
			}
			return nil
		})
		if done {
			ev.Exhaustive(fmt.Sprintf("all %d ban sets of size <= 2 over the 31 directive kinds, for each generated project", len(sets)), true)
		}
		ev.Extra("projects_x_all_ban_sets", len(projects))
	})
	t.Run("bans-random", c19Random.Run)
	t.Run("banned-include-faulty", c19Faulty.Run)
}
