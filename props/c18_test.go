package props

import (
	"bytes"
	"fmt"
	"os"
	"path/filepath"
	"regexp"
	"runtime"
	"sort"
	"strings"
	"sync"
	"testing"
	"time"

	"github.com/jsightapi/jsight-schema-core/fs"
	"pgregory.net/rapid"

	"github.com/jsightapi/jsight-api-core/core"
	"github.com/jsightapi/jsight-api-core/kit"

	"verif/vlib"
)

// C18 – independent builds and serialisations do not interfere when run concurrently.
// The binary of this property is built with -race; every workload is followed by a look at the race detector's log.
// Half of the workloads run "cold": in a fresh worker process, concurrent phase first, sequential baselines afterwards.

type c18Result struct {
	json, oas string
}

func c18Serialise(j *kit.JApi, ops string) (r c18Result) {
	if strings.Contains(ops, "j") {
		b, err := j.ToJson()
		if err != nil {
			r.json = "ERROR " + err.Error()
		} else {
			r.json = string(b)
		}
	}
	if strings.Contains(ops, "o") {
		sig, _, _ := vlib.Safely(func() {
			b, err := j.ToOpenAPIJson()
			if err != nil {
				r.oas = "ERROR " + err.Error()
			} else {
				r.oas = string(b)
			}
		})
		if sig != "" {
			r.oas = "PANIC " + sig
		}
	}
	return
}

func c18Build(name string, src []byte, bans []string) (kit.JApi, bool) {
	var j kit.JApi
	ok := false
	vlib.Safely(func() {
		var je error
		var opts []core.Option
		for _, b := range bans {
			opts = append(opts, vlib.BanOption(b)) // option values shared by all the builds of the process
		}
		jj, e := kit.NewJApiFromFile(fs.NewFile(name, src), opts...)
		if e != nil {
			je = e
		}
		if je == nil {
			j, ok = jj, true
		}
	})
	return j, ok
}

// c18Bans: the ban set of document i of the workload (none, one kind, or two kinds given as two option values).
func c18Bans(c *vlib.Case, i int) []string {
	all, _ := c.Params["bans"].([]any)
	if len(all) == 0 {
		return nil
	}
	set, _ := all[i%len(all)].([]any)
	var out []string
	for _, x := range set {
		if s, ok := x.(string); ok {
			out = append(out, s)
		}
	}
	return out
}

func raceLogFile() string {
	lp := ""
	for _, kv := range strings.Fields(os.Getenv("GORACE")) {
		if strings.HasPrefix(kv, "log_path=") {
			lp = strings.TrimPrefix(kv, "log_path=")
		}
	}
	if lp == "" {
		return ""
	}
	return fmt.Sprintf("%s.%d", lp, os.Getpid())
}

var raceFrameRe = regexp.MustCompile(`(?m)^\s+(github\.com/jsightapi/[^\s(]+(?:\([^)]*\))?[^\s(]*)\(`)

// raceReports returns the signatures of the race reports appended to the log since offset.
func raceReports(offset int64) (sigs []string, text string, newOffset int64) {
	f := raceLogFile()
	if f == "" {
		return nil, "", offset
	}
	b, err := os.ReadFile(f)
	if err != nil || int64(len(b)) <= offset {
		return nil, "", offset
	}
	text = string(b[offset:])
	for _, rep := range strings.Split(text, "==================") {
		if !strings.Contains(rep, "DATA RACE") {
			continue
		}
		// the two access stacks: first jsightapi frame of each
		var firsts []string
		for _, part := range regexp.MustCompile(`(?m)^(?:Read|Write|Previous read|Previous write|Atomic)[^\n]*\n`).Split(rep, -1)[1:] {
			m := raceFrameRe.FindStringSubmatch(part)
			if m != nil {
				firsts = append(firsts, strings.TrimPrefix(m[1], "github.com/jsightapi/"))
			}
		}
		sort.Strings(firsts)
		sigs = append(sigs, "c18:race:"+strings.Join(firsts, "<>"))
	}
	return sigs, text, int64(len(b))
}

var c18RaceOffset int64

// c18Run executes one workload in this process.
func c18Run(c *vlib.Case) (*vlib.Violation, string) {
	docsRaw, _ := c.Params["docs"].([]any)
	var docs [][]byte
	for _, d := range docsRaw {
		s, _ := d.(string)
		docs = append(docs, []byte(s))
	}
	g := asInt(c.Params["goroutines"])
	ops, _ := c.Params["ops"].(string)
	shared := c.Params["shared"] == true
	cold := c.Params["cold"] == true
	procs := asInt(c.Params["procs"])
	if g < 2 || len(docs) == 0 {
		return nil, ""
	}
	if procs > 0 {
		defer runtime.GOMAXPROCS(runtime.GOMAXPROCS(procs))
	}
	baseline := func() []c18Result {
		out := make([]c18Result, len(docs))
		for i, d := range docs {
			if j, ok := c18Build(fmt.Sprintf("/c18/d%d.jst", i), d, c18Bans(c, i)); ok {
				out[i] = c18Serialise(&j, ops)
			} else {
				out[i] = c18Result{json: "REJECTED"}
			}
		}
		return out
	}
	var base []c18Result
	if !cold {
		base = baseline()
	}
	results := make([]c18Result, g)
	starts := make([]time.Time, g)
	ends := make([]time.Time, g)
	var wg sync.WaitGroup
	start := make(chan struct{})
	var sharedAPI kit.JApi
	sharedOK := false
	if shared {
		sharedAPI, sharedOK = c18Build("/c18/shared.jst", docs[0], c18Bans(c, 0))
		if !sharedOK {
			return nil, ""
		}
	}
	for i := 0; i < g; i++ {
		wg.Add(1)
		go func(i int) {
			defer wg.Done()
			<-start
			starts[i] = time.Now()
			if shared {
				results[i] = c18Serialise(&sharedAPI, ops)
			} else {
				d := docs[i%len(docs)]
				if j, ok := c18Build(fmt.Sprintf("/c18/d%d.jst", i%len(docs)), d, c18Bans(c, i%len(docs))); ok {
					results[i] = c18Serialise(&j, ops)
				} else {
					results[i] = c18Result{json: "REJECTED"}
				}
			}
			ends[i] = time.Now()
		}(i)
	}
	close(start)
	wg.Wait()
	if cold {
		base = baseline()
	}
	// overlap: goroutines whose [start,end] intervals intersect with at least two others
	overl := 0
	for i := 0; i < g; i++ {
		n := 0
		for k := 0; k < g; k++ {
			if k != i && starts[i].Before(ends[k]) && starts[k].Before(ends[i]) {
				n++
			}
		}
		if n >= 2 {
			overl++
		}
	}
	info := fmt.Sprintf("overlapped=%d", overl)
	// race reports first: they explain a wrong result
	sigs, text, off := raceReports(c18RaceOffset)
	c18RaceOffset = off
	if len(sigs) > 0 {
		return vlib.V(sigs[0], "%d data race report(s) during the workload (goroutines=%d shared=%v ops=%s cold=%v); first report:\n%s", len(sigs), g, shared, ops, cold, firstLines(text, 60)), info
	}
	for i := 0; i < g; i++ {
		want := base[0]
		if !shared {
			want = base[i%len(docs)]
		}
		if results[i] != want {
			which := "ToJson"
			a, b := want.json, results[i].json
			if a == b {
				which, a, b = "ToOpenAPIJson", want.oas, results[i].oas
			}
			d := firstDiffPos(a, b)
			return vlib.V("c18:result-differs:"+which, "goroutine %d of %d (shared=%v cold=%v): %s differs from the sequential result at byte %d:\n sequential: %s\n concurrent: %s", i, g, shared, cold, which, d, around(a, d), around(b, d)), info
		}
	}
	return nil, info
}

func c18Oracle(c *vlib.Case) *vlib.Violation {
	if c.Params["cold"] == true {
		// a fresh process for every cold workload
		iso := vlib.NewIso()
		iso.Limit = 120 * time.Second
		defer iso.Close()
		v, info := iso.Run(c)
		c18NoteOverlap(info)
		return v
	}
	v, info := c18Run(c)
	c18NoteOverlap(info)
	return v
}

func c18NoteOverlap(info string) {
	n := 0
	fmt.Sscanf(info, "overlapped=%d", &n)
	if n >= 3 {
		vlib.Ev("C18").Class("overlap>=3")
	} else {
		vlib.Ev("C18").Class("overlap<3")
	}
}

func c18Docs(r vlib.Rnd, n int) []any {
	pool := acceptedProjects()
	var out []any
	for len(out) < n {
		var src []byte
		if vlib.Chance(r, 1, 4) {
			// an accepted document of the allOf families: inheritance is resolved lazily, at the first serialisation
			for try := 0; try < 6 && src == nil; try++ {
				b := genAllOfFamily(r)
				if bld := vlib.Build(vlib.SingleFile(b)); bld.Out.OK() {
					src = b
					bld.Close()
				} else {
					bld.Close()
				}
			}
			if src == nil {
				continue
			}
		} else if genModelDoc != nil && vlib.Chance(r, 1, 2) {
			src = genModelDoc(r).RootBytes()
		} else {
			p := vlib.Pick(r, pool)
			if len(p.Files) != 1 {
				continue
			}
			src = p.RootBytes()
		}
		// examples of schemas using regex types are not reproducible even sequentially (finding N5 of C06)
		if !strings.Contains(string(src), "regex") && len(src) < 20000 && strings.ToValidUTF8(string(src), "") == string(src) {
			out = append(out, string(src))
		}
	}
	return out
}

// c18GenBans: in a third of the workloads the builds are configured with banned directives, different sets for different
// documents, given as one option value per kind; the kinds are such that the generated documents rarely contain them.
func c18GenBans(r vlib.Rnd, nd int) []any {
	if !vlib.Chance(r, 1, 2) {
		return nil
	}
	kinds := []string{"MACRO", "PASTE", "INCLUDE"}
	var out []any
	for i := 0; i < nd; i++ {
		var set []any
		for k := 1 + r.Intn(2); k > 0; k-- {
			set = append(set, vlib.Pick(r, kinds))
		}
		out = append(out, set)
	}
	return out
}

var c18Work = &vlib.Check{
	Prop: "C18", Name: "workloads", Quick: 360, Thorough: 16000,
	Oracle: c18Oracle, Inner: c18Run,
	Gen: func(t *rapid.T) *vlib.Case {
		r := vlib.RapidRnd{T: t}
		g := 2 + r.Intn(7)
		shared := vlib.Chance(r, 1, 3)
		nd := g
		if shared {
			nd = 1
		} else if vlib.Chance(r, 1, 3) {
			nd = 1 + r.Intn(g) // several goroutines build the same document
		}
		docs := c18Docs(r, nd)
		return &vlib.Case{Project: vlib.SingleFile([]byte(docs[0].(string))), Params: map[string]any{
			"docs": docs, "goroutines": g, "shared": shared, "cold": vlib.Chance(r, 1, 2),
			"ops": vlib.Pick(r, []string{"j", "jo", "o", "j", "jo", ""}), "procs": vlib.Pick(r, []int{2, 4, 16}), "bans": c18GenBans(r, nd)}}
	},
	Classify: func(c *vlib.Case) (bool, []string) {
		cls := []string{fmt.Sprintf("goroutines-%d", asInt(c.Params["goroutines"])), "ops-" + fmt.Sprint(c.Params["ops"])}
		if c.Params["shared"] == true {
			cls = append(cls, "shared-catalog")
		}
		if bb, _ := c.Params["bans"].([]any); len(bb) > 0 {
			cls = append(cls, "builds-with-ban-options")
		}
		if c.Params["cold"] == true {
			cls = append(cls, "cold")
		} else {
			cls = append(cls, "warm")
		}
		return asInt(c.Params["goroutines"]) >= 3, cls
	},
	SampleOf: func(c *vlib.Case) any {
		m := map[string]any{}
		for k, v := range c.Params {
			if k != "docs" {
				m[k] = v
			}
		}
		docs, _ := c.Params["docs"].([]any)
		m["documents"] = len(docs)
		if len(docs) > 0 {
			m["first_document"] = clip([]byte(docs[0].(string)), 300)
		}
		return m
	},
}

func init() { vlib.Register(c18Work) }

func TestC18(t *testing.T) {
	if raceLogFile() == "" {
		vlib.Ev("C18").Note("GORACE log_path is not set: race reports are not collected in this run")
	} else {
		_ = os.MkdirAll(filepath.Dir(raceLogFile()), 0o755)
	}
	if !raceEnabled {
		vlib.Ev("C18").Note("binary built without -race")
	}
	t.Run("workloads", c18Work.Run)
	// whatever the detector reported outside the attributed workloads
	if sigs, text, _ := raceReports(c18RaceOffset); len(sigs) > 0 {
		v := vlib.V(sigs[0], "unattributed race report:\n%s", firstLines(text, 60))
		if id := vlib.MatchExcluded("C18", v); id != "" {
			vlib.Ev("C18").Excluded(id)
		} else {
			c := &vlib.Case{Property: "C18", Kind: "workloads", Note: "race report outside a workload"}
			p := vlib.SaveFailure(c, v)
			t.Fatalf("VERIF-FAIL property=C18 check=workloads replay=%s\n%s", p, v)
		}
	}
	_ = bytes.MinRead
}
