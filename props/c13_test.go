package props

import (
	"fmt"
	"sort"
	"strings"
	"testing"

	"github.com/jsightapi/jsight-schema-core/fs"
	"pgregory.net/rapid"

	"github.com/jsightapi/jsight-api-core/directive"
	"github.com/jsightapi/jsight-api-core/jerr"
	"github.com/jsightapi/jsight-api-core/scanner"

	"verif/vlib"
)

// ---- C13 reference (frozen here; written from the JSight API 0.3 keyword list, not from the scanner) ----------

var kwRef = []string{
	"JSIGHT", "INFO", "Title", "Version", "Description", "SERVER", "BaseUrl", "URL", "GET", "POST", "PUT", "PATCH", "DELETE",
	"Body", "Request", "Path", "Headers", "Query", "TYPE", "ENUM", "MACRO", "PASTE", "INCLUDE", "Protocol", "Method", "Params",
	"Result", "TAG", "Tags", "OperationId",
}

func kwIsCode(w string) bool {
	return len(w) == 3 && w[0] >= '1' && w[0] <= '5' && w[1] >= '0' && w[1] <= '9' && w[2] >= '0' && w[2] <= '9'
}

func kwIsKeyword(w string) bool {
	if kwIsCode(w) {
		return true
	}
	for _, k := range kwRef {
		if k == w {
			return true
		}
	}
	return false
}

// kwIsProperPrefix: w is a proper prefix of some keyword or response code.
func kwIsProperPrefix(w string) bool {
	if w == "" {
		return true
	}
	for _, k := range kwRef {
		if len(w) < len(k) && strings.HasPrefix(k, w) {
			return true
		}
	}
	if len(w) < 3 && w[0] >= '1' && w[0] <= '5' {
		for i := 1; i < len(w); i++ {
			if w[i] < '0' || w[i] > '9' {
				return false
			}
		}
		return true
	}
	return false
}

func kwIsTerminator(b byte) bool {
	return b == ' ' || b == '\t' || b == '\n' || b == '\r' || b == '#' || b == '/'
}

// kwClassify predicts what the scanner must do with `word` at a directive-start position followed by EOF:
// "complete" (keyword lexeme covering the word), "alive" (error only at EOF), or "dead@k" (error at byte k of the word),
// or "term" (keyword + accepted terminator: no error at the terminator).
func kwClassify(word string) (string, int) {
	// longest prefix that is a keyword prefix
	k := 0
	for k < len(word) && (kwIsProperPrefix(word[:k+1]) || kwIsKeyword(word[:k+1])) {
		k++
		if kwIsKeyword(word[:k]) {
			break
		}
	}
	switch {
	case k == len(word) && kwIsKeyword(word):
		return "complete", 0
	case k == len(word):
		return "alive", 0
	case kwIsKeyword(word[:k]):
		if kwIsTerminator(word[k]) {
			return "term", k
		}
		return "dead", k
	default:
		return "dead", k
	}
}

type kwScan struct {
	kwBegin, kwEnd int // first keyword lexeme at/after offset; -1 if none
	errIdx         int // -1 if none
	errMsg         string
	panicked       string
}

func kwScanWord(ctx, word string) (r kwScan) {
	r.kwBegin, r.kwEnd, r.errIdx = -1, -1, -1
	defer func() {
		if p := recover(); p != nil {
			r.panicked = fmt.Sprint(p)
		}
	}()
	off := len(ctx)
	s := scanner.NewJApiScanner(fs.NewFile("x.jst", []byte(ctx+word)))
	for {
		l, e := s.Next()
		if e != nil {
			r.errIdx = int(e.Index)
			r.errMsg = e.Msg
			return
		}
		if l == nil {
			return
		}
		if l.Type() == scanner.Keyword && int(l.Begin()) >= off && r.kwBegin == -1 {
			r.kwBegin, r.kwEnd = int(l.Begin()), int(l.End())
		}
	}
}

func c13Oracle(c *vlib.Case) *vlib.Violation {
	ctx, _ := c.Params["ctx"].(string)
	word := string(c.Project.RootBytes())
	off := len(ctx)
	want, k := kwClassify(word)
	r := kwScanWord(ctx, word)
	if r.panicked != "" {
		return vlib.V("c13:scanner-panic", "ctx=%q word=%q panic=%s", ctx, word, r.panicked)
	}
	got := ""
	switch {
	case r.kwBegin == off && r.kwEnd == off+len(word)-1:
		got = "complete"
	case r.kwBegin == off && r.kwEnd < off+len(word)-1:
		// keyword recognised as a proper prefix of the word
		if r.errIdx == r.kwEnd+1 {
			got = fmt.Sprintf("dead@%d(after keyword)", r.kwEnd+1-off)
		} else {
			got = fmt.Sprintf("term@%d", r.kwEnd+1-off)
		}
	case r.kwBegin == -1 && r.errIdx == off+len(word):
		got = "alive"
	case r.kwBegin == -1 && r.errIdx >= off && r.errIdx < off+len(word):
		got = fmt.Sprintf("dead@%d", r.errIdx-off)
	default:
		got = fmt.Sprintf("other(kw=[%d,%d] err=%d %q)", r.kwBegin, r.kwEnd, r.errIdx, r.errMsg)
	}
	exp := want
	switch want {
	case "dead":
		exp = fmt.Sprintf("dead@%d", k)
		if kwIsKeyword(word[:k]) {
			exp = fmt.Sprintf("dead@%d(after keyword)", k)
		}
	case "term":
		exp = fmt.Sprintf("term@%d", k)
	}
	if got != exp {
		return vlib.V("c13:keyword-set:"+want, "ctx=%q word=%q: reference says %s, scanner did %s (err %q)", ctx, word, exp, got, r.errMsg)
	}
	if want == "complete" || want == "term" {
		kw := word
		if want == "term" {
			kw = word[:k]
		}
		if _, err := directive.NewDirectiveType(kw); err != nil {
			return vlib.V("c13:directive-table-missing", "keyword %q is scanned but unknown to the directive table", kw)
		}
	} else if _, err := directive.NewDirectiveType(word); err == nil && !kwIsKeyword(word) {
		return vlib.V("c13:directive-table-extra", "%q is not a keyword but the directive table knows it", word)
	}
	return nil
}

var c13BFS = &vlib.Check{
	Prop: "C13", Name: "bfs",
	Oracle: c13Oracle,
	Classify: func(c *vlib.Case) (bool, []string) {
		w, _ := kwClassify(string(c.Project.RootBytes()))
		return true, []string{w}
	},
	SampleOf: func(c *vlib.Case) any {
		return map[string]any{"ctx": c.Params["ctx"], "word": string(c.Project.RootBytes())}
	},
}

// c13Core: building "<keyword>\n" (after JSIGHT) never yields "unknown directive"; a non-keyword word never builds.
func c13CoreOracle(c *vlib.Case) *vlib.Violation {
	b := vlib.Build(c.Project)
	defer b.Close()
	word, _ := c.Params["word"].(string)
	o := b.Out
	if o.Crashed() {
		// crashes belong to C01; here only the keyword question is asked
		return nil
	}
	if kwIsKeyword(word) {
		if o.Err() && strings.HasPrefix(o.Msg, jerr.UnknownDirective) {
			return vlib.V("c13:core-unknown-directive", "keyword %q: %s", word, o.Brief())
		}
		return nil
	}
	if o.OK() {
		return vlib.V("c13:core-accepts-nonkeyword", "word %q was accepted as a directive", word)
	}
	return nil
}

var c13Core = &vlib.Check{
	Prop: "C13", Name: "core",
	Oracle: c13CoreOracle,
	Classify: func(c *vlib.Case) (bool, []string) {
		w, _ := c.Params["word"].(string)
		if kwIsKeyword(w) {
			return true, []string{"keyword"}
		}
		return true, []string{"near-miss"}
	},
}

// c13AfterSchemaBody: right after a schema body a line may also start with the "//" of a comment that belongs to the
// schema, so '/' is not a deviating byte there (the error, if any, comes at the byte after it) - such words are not
// "words at a directive start" and are left out, like '#'.
func c13AfterSchemaBody(ctx string) bool { return strings.HasSuffix(ctx, "{}\n") }

// c13Random: random words assembled from keyword fragments, near misses and arbitrary bytes at a directive start.
var c13Random = &vlib.Check{
	Prop: "C13", Name: "random", Quick: 20000, Thorough: 600000,
	Oracle: c13Oracle,
	Gen: func(t *rapid.T) *vlib.Case {
		r := vlib.RapidRnd{T: t}
		ctx := vlib.Pick(r, c13Contexts)
		var w []byte
		base := ""
		if vlib.Chance(r, 1, 6) {
			base = fmt.Sprintf("%d", 90+r.Intn(560))
		} else {
			base = vlib.Pick(r, kwRef)
		}
		w = []byte(base)
		switch r.Intn(8) {
		case 7: // spellings a number parser accepts but the keyword grammar does not
			n := 90 + r.Intn(560)
			w = []byte(fmt.Sprintf(vlib.Pick(r, []string{"+%d", "-%d", "%d.0", "0%d", "%de0", "0x%d", "%d_", " %d"})[0:], n))
			if w[0] == ' ' {
				w = w[1:]
			}
		case 0: // exact
		case 1: // truncate
			w = w[:r.Intn(len(w))+1]
		case 2: // replace one byte
			w[r.Intn(len(w))] = byte(1 + r.Intn(255))
		case 3: // append byte
			w = append(w, byte(1+r.Intn(255)))
		case 4: // change case of one letter
			i := r.Intn(len(w))
			w[i] ^= 0x20
		case 5: // insert byte
			i := r.Intn(len(w) + 1)
			w = append(w[:i:i], append([]byte{byte(1 + r.Intn(255))}, w[i:]...)...)
		case 6: // append second keyword / digits
			w = append(w, []byte(vlib.Pick(r, kwRef))...)
		}
		if len(w) == 0 || isDirectiveStartTrivia(w[0]) || (w[0] == '/' && c13AfterSchemaBody(ctx)) {
			return nil
		}
		return &vlib.Case{Project: vlib.SingleFile(w), Params: map[string]any{"ctx": ctx}}
	},
	Classify: func(c *vlib.Case) (bool, []string) {
		w, _ := kwClassify(string(c.Project.RootBytes()))
		return true, []string{w}
	},
	SampleOf: func(c *vlib.Case) any {
		return map[string]any{"ctx": c.Params["ctx"], "word": string(c.Project.RootBytes())}
	},
}

func isDirectiveStartTrivia(b byte) bool {
	return b == ' ' || b == '\t' || b == '\n' || b == '\r' || b == '#' || b == '(' || b == ')' || b == 0
}

// start contexts: text after which a directive may start.
var c13Contexts = []string{
	"",
	"JSIGHT 0.3\n",
	"JSIGHT 0.3\n\n  ",
	"JSIGHT 0.3\nTYPE @a\n{}\n",
	"JSIGHT 0.3\nURL /a\n(\n",
	"JSIGHT 0.3\nURL /a\n(\n)\n",
	"JSIGHT 0.3\n# comment\n",
	"JSIGHT 0.3\n###\nblock\n###\n",
	"JSIGHT 0.3\r\nGET /a // note\r\n\t",
}

// c13AfterText: every keyword must also be recognised when it follows a free-text Description body (the text ends where a
// line starts with a directive); a keyword swallowed by the text is a keyword that is not reachable there.
var c13AfterText = &vlib.Check{
	Prop: "C13", Name: "after-description",
	Oracle: func(c *vlib.Case) *vlib.Violation {
		ctx, _ := c.Params["ctx"].(string)
		word := string(c.Project.RootBytes())
		kw := strings.TrimRight(strings.SplitN(word, " ", 2)[0], "\r\n")
		r := kwScanWord(ctx, word)
		if r.panicked != "" {
			return vlib.V("c13:scanner-panic", "ctx=%q word=%q panic=%s", ctx, word, r.panicked)
		}
		if r.kwBegin != len(ctx) || r.kwEnd != len(ctx)+len(kw)-1 {
			return vlib.V("c13:keyword-not-recognised-after-description", "after a Description text the line %q does not start the directive %s (first keyword lexeme after the text: [%d,%d], error %d %q)", word, kw, r.kwBegin, r.kwEnd, r.errIdx, r.errMsg)
		}
		return nil
	},
	Classify: func(c *vlib.Case) (bool, []string) { return true, []string{"keyword-after-text"} },
	SampleOf: func(c *vlib.Case) any {
		return map[string]any{"ctx": c.Params["ctx"], "word": string(c.Project.RootBytes())}
	},
}

// c13TextNotKeyword: the converse - after a Description text a line that begins with a keyword (or response code)
// followed by one more word character is a line of the text: no directive starts there and nothing is refused.
var c13TextNotKeyword = &vlib.Check{
	Prop: "C13", Name: "after-description-lookalikes",
	Oracle: func(c *vlib.Case) *vlib.Violation {
		ctx, _ := c.Params["ctx"].(string)
		word := string(c.Project.RootBytes())
		r := kwScanWord(ctx, word)
		if r.panicked != "" {
			return vlib.V("c13:scanner-panic", "ctx=%q word=%q panic=%s", ctx, word, r.panicked)
		}
		if r.errIdx >= 0 || r.kwBegin == len(ctx) {
			return vlib.V("c13:text-line-taken-for-a-directive", "after a Description text the line %q is a line of the text (no keyword ends after %q); keyword lexeme [%d,%d], error %d %q", word, strings.SplitN(word, " ", 2)[0], r.kwBegin, r.kwEnd, r.errIdx, r.errMsg)
		}
		return nil
	},
	Classify: func(c *vlib.Case) (bool, []string) { return true, []string{"lookalike-after-text"} },
	SampleOf: func(c *vlib.Case) any {
		return map[string]any{"ctx": c.Params["ctx"], "word": string(c.Project.RootBytes())}
	},
}

func init() { vlib.Register(c13BFS, c13Core, c13Random, c13AfterText, c13TextNotKeyword) }

func TestC13(t *testing.T) {
	ev := vlib.Ev("C13")
	ctxs := c13Contexts[:2]
	if vlib.Tier() == "thorough" {
		ctxs = c13Contexts
	}
	if vlib.Shard() == 0 {
		t.Run("bfs", func(t *testing.T) {
			completed := map[string]bool{}
			scans := 0
			for _, ctx := range ctxs {
				// BFS over the reference trie; every (live prefix, byte) pair is a case.
				live := []string{""}
				for depth := 0; depth <= 12 && len(live) > 0; depth++ {
					var next []string
					idx, b := 0, 0
					ok := c13BFS.RunEnum(t, func() *vlib.Case {
						for idx < len(live) {
							if b >= 256 {
								idx, b = idx+1, 0
								continue
							}
							p := live[idx]
							w := p + string([]byte{byte(b)})
							b++
							if len(p) == 0 && (isDirectiveStartTrivia(w[0]) || (w[0] == '/' && c13AfterSchemaBody(ctx))) {
								continue
							}
							scans++
							switch cls, _ := kwClassify(w); cls {
							case "alive":
								next = append(next, w)
							case "complete":
								completed[w] = true
							}
							return &vlib.Case{Project: vlib.SingleFile([]byte(w)), Params: map[string]any{"ctx": ctx}}
						}
						return nil
					})
					if !ok {
						return
					}
					live = next
				}
				// every completed keyword x 256 following bytes
				var kws []string
				for k := range completed {
					kws = append(kws, k)
				}
				sort.Strings(kws)
				ki, b := 0, 0
				if !c13BFS.RunEnum(t, func() *vlib.Case {
					for ki < len(kws) {
						if b >= 256 {
							ki, b = ki+1, 0
							continue
						}
						w := kws[ki] + string([]byte{byte(b)})
						b++
						scans++
						return &vlib.Case{Project: vlib.SingleFile([]byte(w)), Params: map[string]any{"ctx": ctx}}
					}
					return nil
				}) {
					return
				}
			}
			if len(completed) != len(kwRef)+500 {
				t.Fatalf("harness: reference trie completed %d words, want %d", len(completed), len(kwRef)+500)
			}
			// the directive table itself: every entry but HTTP-response-code is a reference keyword
			for i := 0; i <= int(directive.OperationID); i++ {
				s := directive.Enumeration(i).String()
				if directive.Enumeration(i) == directive.HTTPResponseCode {
					continue
				}
				if !kwIsKeyword(s) {
					c := &vlib.Case{Property: "C13", Kind: "bfs", Project: vlib.SingleFile([]byte(s)), Params: map[string]any{"ctx": ""}}
					p := vlib.SaveFailure(c, vlib.V("c13:directive-table-extra", "table entry %q is not a keyword", s))
					t.Fatalf("VERIF-FAIL property=C13 check=bfs replay=%s", p)
				}
			}
			ev.Exhaustive("bfs: every (live prefix, byte) pair to depth 12 and every (keyword, following byte) pair, per start context", true)
			ev.Extra("bfs_scans", scans)
			ev.Extra("bfs_contexts", len(ctxs))
		})
		t.Run("core", func(t *testing.T) {
			var words []string
			words = append(words, kwRef...)
			for c := 100; c < 600; c += 7 {
				words = append(words, fmt.Sprint(c))
			}
			words = append(words, "100", "199", "500", "599", "600", "099", "99", "1000", "GETS", "Pathx", "Tag", "TagS", "tags", "Url", "url", "Get",
				"HTTP-response-code", "CONFIG", "Include", "OperationID", "BaseURL", "6xx", "2xx", "default")
			i := 0
			c13Core.RunEnum(t, func() *vlib.Case {
				if i >= len(words) {
					return nil
				}
				w := words[i]
				i++
				return &vlib.Case{Project: vlib.SingleFile([]byte("JSIGHT 0.3\n" + w + "\n")), Params: map[string]any{"word": w}}
			})
		})
	}
	if vlib.Shard() == 0 {
		t.Run("after-description", func(t *testing.T) {
			var words []string
			for _, k := range kwRef {
				words = append(words, k)
			}
			for c := 100; c < 600; c++ {
				words = append(words, fmt.Sprint(c))
			}
			ctxs := []string{"JSIGHT 0.3\nGET /a\n  Description\n    some text\n  ", "JSIGHT 0.3\nINFO\n  Description\n    line one\n\n    line two\n", "JSIGHT 0.3\r\nGET /a\r\n\tDescription\r\n\t\ttext\r\n\t"}
			terms := []string{"", " x", "\n", " // a\n"}
			i := 0
			total := len(words) * len(ctxs) * len(terms)
			c13AfterText.RunEnum(t, func() *vlib.Case {
				if i >= total {
					return nil
				}
				w := words[i%len(words)]
				ctx := ctxs[(i/len(words))%len(ctxs)]
				term := terms[i/(len(words)*len(ctxs))]
				i++
				return &vlib.Case{Project: vlib.SingleFile([]byte(w + term)), Params: map[string]any{"ctx": ctx}}
			})
		})
	}
	if vlib.Shard() == 2%vlib.Shards() {
		t.Run("after-description-lookalikes", func(t *testing.T) {
			var words []string
			for _, k := range kwRef {
				words = append(words, k)
			}
			for c := 100; c < 600; c += 7 {
				words = append(words, fmt.Sprint(c))
			}
			ctxs := []string{"JSIGHT 0.3\nGET /a\n  Description\n    some text\n  ", "JSIGHT 0.3\nINFO\n  Description\n    line one\n\n    line two\n", "JSIGHT 0.3\r\nGET /a\r\n\tDescription\r\n\t\ttext\r\n\t"}
			sufs := []string{"s", "x and more", "0", "_", "Z\n", "entifier of the cats", "s\n    more text"}
			i := 0
			total := len(words) * len(ctxs) * len(sufs)
			c13TextNotKeyword.RunEnum(t, func() *vlib.Case {
				for i < total {
					w := words[i%len(words)]
					ctx := ctxs[(i/len(words))%len(ctxs)]
					suf := sufs[i/(len(words)*len(ctxs))]
					i++
					if kwIsKeyword(w+suf[:1]) || kwIsProperPrefix(w+suf[:1]) || kwIsCode(w+suf[:1]) {
						continue // (one keyword is the prefix of another: "Method" + "s" is not one, "Tag" is not a keyword ...)
					}
					return &vlib.Case{Project: vlib.SingleFile([]byte(w + suf)), Params: map[string]any{"ctx": ctx}}
				}
				return nil
			})
		})
	}
	t.Run("random", c13Random.Run)
}
