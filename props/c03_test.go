package props

import (
	"encoding/json"
	"fmt"
	"strings"
	"testing"

	"pgregory.net/rapid"

	"verif/mdl"
	"verif/vlib"
)

// C03 – a single known fault is rejected, at the fault.

type c03Expect struct {
	Class string   `json:"class"`
	Msg   []string `json:"msg"`
	At    [][2]any `json:"at"` // acceptable (file, line) pairs
	Place string   `json:"place"`
}

func c03Oracle(c *vlib.Case) *vlib.Violation {
	var e c03Expect
	if err := json.Unmarshal(c.Expect, &e); err != nil {
		return vlib.V("harness:bad-expectation", "%v", err)
	}
	b := vlib.Build(c.Project)
	defer b.Close()
	o := b.Out
	if o.Crashed() {
		return vlib.V("c03:crash:"+e.Class+":"+o.Sig, "a document with one planted fault (%s) crashes the build: %s", e.Class, o.Panic)
	}
	if o.OK() {
		return vlib.V("c03:fault-accepted:"+e.Class, "a document with one planted fault of class %s is accepted", e.Class)
	}
	okMsg := false
	for _, m := range e.Msg {
		if strings.Contains(o.Msg, m) {
			okMsg = true
		}
	}
	if !okMsg {
		return vlib.V("c03:wrong-message:"+e.Class, "planted fault %s expects a message containing one of %q; got %s", e.Class, e.Msg, o.Brief())
	}
	for _, at := range e.At {
		f, _ := at[0].(string)
		if f == o.File && asInt(at[1]) == o.Line || f == "*" {
			return nil
		}
	}
	return vlib.V("c03:wrong-location:"+e.Class, "planted fault %s must be reported at one of %v; got %s", e.Class, e.At, o.Brief())
}

func lineOfToken(rd *mdl.Rendered, tok string) (string, int) {
	for name, b := range rd.Files {
		if i := strings.Index(string(b), tok); i >= 0 {
			return name, vlib.LineOf(b, i)
		}
	}
	return "", 0
}

var c03Faults = &vlib.Check{
	Prop: "C03", Name: "faults", Quick: 4000, Thorough: 480000,
	Oracle: c03Oracle,
	Gen: func(t *rapid.T) *vlib.Case {
		r := vlib.RapidRnd{T: t}
		doc := mdl.Gen(r)
		tree := mdl.BuildTree(doc, mdl.TreeOpts{R: r})
		place := vlib.Pick(r, []string{"direct", "direct", "include", "macro"})
		var ft []*mdl.Dir
		var f *mdl.Fault
		if place == "macro" && vlib.Chance(r, 1, 2) {
			mt, n, _ := mdl.Macroize(r, tree, 1+r.Intn(2))
			if n == 0 {
				return nil
			}
			ft, f = mdl.InjectMacro(r, mt, r.Intn(len(mdl.MacroInjectors)))
			place = "macro-form"
		} else {
			k := r.Intn(len(mdl.Injectors))
			ft, f = mdl.Inject(r, tree, k)
			if f != nil {
				switch place {
				case "include":
					if strings.HasPrefix(f.Class, "jsight:") {
						place = "direct" // JSIGHT lives in the root file
						break
					}
					st, cuts, _ := mdl.Split(r, ft, 1+r.Intn(3), 1+r.Intn(3))
					if cuts == 0 {
						place = "direct"
					} else {
						ft = st
					}
				case "macro":
					if f.Class == "jsight:missing" || f.Class == "jsight:not-first" {
						// JSIGHT is dropped from / moved down in the macro form of the document: the directive that comes first
						// instead may be a MACRO definition
						mt, n, _ := mdl.Macroize(r, tree, 1+r.Intn(2))
						if n == 0 {
							place = "direct"
							break
						}
						if ft, f = mdl.Inject(r, mt, k); f == nil {
							return nil
						}
						break
					}
					if f.Class == "undefined:macro" || strings.HasPrefix(f.Class, "jsight:") || strings.HasPrefix(f.Class, "duplicate:TAG") {
						place = "direct"
						break
					}
					mt, n, _ := mdl.Macroize(r, ft, 1+r.Intn(2))
					if n == 0 {
						place = "direct"
					} else {
						ft = mt
					}
				}
			}
		}
		if f == nil {
			return nil
		}
		lay := mdl.RandomLayout(r)
		if f.AtEndOfFile {
			lay.NoFinalEOL = true
			lay.PTrail, lay.PEolComment = 0, 0
		}
		rd := mdl.Render(ft, lay)
		e := c03Expect{Class: f.Class, Msg: f.Msg, Place: place}
		add := func(id int, next bool) {
			if p, ok := rd.Pos[id]; ok {
				e.At = append(e.At, [2]any{p.File, p.Line})
				if next {
					// a missing body is noticed where the scanner gives up: the following lines may first be taken for the body
					// (a response code is a valid number schema), even lines of an included file - only the rejection is required
					e.At = append(e.At, [2]any{"*", 0})
				}
			}
		}
		if f.Token != "" {
			if file, line := lineOfToken(rd, f.Token); line > 0 {
				e.At = append(e.At, [2]any{file, line})
			}
		} else {
			add(f.DirID, f.NextLine)
			for _, id := range f.AlsoIDs {
				add(id, false)
			}
			if f.Class == "annotation:PASTE" {
				// paste-phase faults inside a macro body are reported on the PASTE that expands that body (pinned design)
				for _, id := range mdl.PasteSites(ft, f.DirID) {
					add(id, false)
				}
			}
		}
		if len(e.At) == 0 {
			return nil
		}
		// was the faulty directive moved away from the root file / into a macro body?
		if p, ok := rd.Pos[f.DirID]; ok && p.File != rd.Root {
			place = "include"
		} else if place == "include" {
			place = "include-elsewhere"
		}
		e.Place = place
		eb, _ := json.Marshal(e)
		return &vlib.Case{Project: renderedProject(rd), Expect: eb, Params: map[string]any{"class": f.Class, "place": place}}
	},
	Classify: func(c *vlib.Case) (bool, []string) {
		cl, _ := c.Params["class"].(string)
		pl, _ := c.Params["place"].(string)
		return pl != "direct", []string{"class:" + cl, "place:" + pl, fmt.Sprintf("cell:%s/%s", strings.SplitN(cl, ":", 2)[0], pl)}
	},
	SampleOf: func(c *vlib.Case) any {
		return map[string]any{"class": c.Params["class"], "place": c.Params["place"], "expect": string(c.Expect), "project": c.Project.Summary(500)}
	},
}

func init() { vlib.Register(c03Faults) }

func TestC03(t *testing.T) {
	t.Run("faults", c03Faults.Run)
}
