package props

import (
	"strings"
	"testing"

	"pgregory.net/rapid"

	"verif/mdl"
	"verif/vlib"
)

// C02 – the catalog says exactly what the document says.  A model is generated, rendered in a generated layout, built,
// and the parsed catalog is compared with the catalog computed from the model alone.

func renderedProject(rd *mdl.Rendered) *vlib.Project {
	p := &vlib.Project{Root: rd.Root, Files: map[string][]byte{}}
	for n, b := range rd.Files {
		p.Files[n] = b
	}
	return p
}

// genModelCase draws a model and a layout; the expectation travels with the case (self-contained replay).
func genModelCase(r vlib.Rnd, plain bool) (*vlib.Case, *mdl.Doc, *mdl.Rendered) {
	return genModelCaseT(r, plain, false)
}

// genModelCaseT: with transform set, some renderings move directives into MACRO + PASTE and / or INCLUDE files (the
// expected catalog is the model's, whatever the project structure).
func genModelCaseT(r vlib.Rnd, plain, transform bool) (*vlib.Case, *mdl.Doc, *mdl.Rendered) {
	return genModelCaseOf(r, mdl.Gen(r), plain, transform)
}

func genModelCaseOf(r vlib.Rnd, doc *mdl.Doc, plain, transform bool) (*vlib.Case, *mdl.Doc, *mdl.Rendered) {
	var lay *mdl.Layout
	opts := mdl.TreeOpts{R: r, Plain: plain}
	if plain {
		lay = mdl.PlainLayout()
	} else {
		lay = mdl.RandomLayout(r)
	}
	tree := mdl.BuildTree(doc, opts)
	macros, cuts, ragged := 0, 0, 0
	if transform && !plain {
		if vlib.Chance(r, 1, 2) {
			var rg int
			tree, macros, _, rg = mdl.MacroizeRagged(r, tree, 1+r.Intn(3), true)
			ragged += rg
		}
		if vlib.Chance(r, 1, 3) {
			var rg int
			tree, cuts, _, rg = mdl.SplitRagged(r, tree, 1+r.Intn(3), 1+r.Intn(3), true)
			ragged += rg
		}
	}
	rd := mdl.Render(tree, lay)
	if macros > 0 {
		rd.Features["structure:macros"]++
	}
	if cuts > 0 {
		rd.Features["structure:includes"]++
	}
	if ragged > 0 {
		rd.Features["structure:ragged"]++
	}
	exp := mdl.Expect(doc)
	c := &vlib.Case{Project: renderedProject(rd), Expect: []byte(exp.Canon(false))}
	feats := map[string]any{}
	for k, v := range rd.Features {
		feats[k] = v
	}
	c.Params = map[string]any{"features": feats}
	return c, doc, rd
}

func c02Oracle(c *vlib.Case) *vlib.Violation {
	exp, err := vlib.ParseOrdered(c.Expect)
	if err != nil {
		return vlib.V("harness:bad-expectation", "%v", err)
	}
	b := vlib.Build(c.Project)
	defer b.Close()
	o := b.Out
	if o.Crashed() {
		return vlib.V("c02:crash:"+o.Sig, "a document rendered from a valid model crashes the build: %s", o.Panic)
	}
	if !o.OK() {
		return vlib.V("c02:rejected:"+errClass(o.Msg), "a document rendered from a valid model is rejected: %s", o.Brief())
	}
	js, err := b.Api.ToJson()
	if err != nil {
		return vlib.V("c02:tojson-error:"+errClass(err.Error()), "%v", err)
	}
	got, err := vlib.ParseOrdered(js)
	if err != nil {
		return vlib.V("c02:invalid-json", "%v", err)
	}
	if d := mdl.CompareCatalog(exp, got); d != "" {
		sec := strings.SplitN(strings.TrimPrefix(d, "/"), "/", 2)[0]
		sec = strings.SplitN(sec, ":", 2)[0]
		return vlib.V("c02:catalog-differs:"+sec, "%s", d)
	}
	return nil
}

func c02Classify(c *vlib.Case) (bool, []string) {
	exp, err := vlib.ParseOrdered(c.Expect)
	if err != nil {
		return false, nil
	}
	var cls []string
	ii := exp.Get("interactions")
	n := len(ii.Keys)
	multiResp := false
	for _, it := range ii.Vals {
		if rs := it.Get("responses"); rs != nil && len(rs.Vals) >= 2 {
			multiResp = true
		}
	}
	feats, _ := c.Params["features"].(map[string]any)
	for k := range feats {
		cls = append(cls, "layout:"+k)
	}
	if exp.Has("userTypes") {
		cls = append(cls, "has-types")
	}
	if exp.Has("userEnums") {
		cls = append(cls, "has-enums")
	}
	if exp.Has("servers") {
		cls = append(cls, "has-servers")
	}
	if n >= 2 {
		cls = append(cls, "interactions>=2")
	}
	return (n >= 2 || multiResp) && len(feats) > 0, cls
}

var c02Model = &vlib.Check{
	Prop: "C02", Name: "model", Quick: 6000, Thorough: 480000,
	Oracle: c02Oracle, Classify: c02Classify,
	Gen: func(t *rapid.T) *vlib.Case {
		r := vlib.RapidRnd{T: t}
		c, _, _ := genModelCaseT(r, vlib.Chance(r, 1, 8), true)
		return c
	},
}

// c02PathSharing: small models of resources on nested paths that share path variables (mdl.GenPathSharing).
var c02PathSharing = &vlib.Check{
	Prop: "C02", Name: "path-sharing", Quick: 1500, Thorough: 60000,
	Oracle: c02Oracle, Classify: c02Classify,
	Gen: func(t *rapid.T) *vlib.Case {
		r := vlib.RapidRnd{T: t}
		c, _, _ := genModelCaseOf(r, mdl.GenPathSharing(r), vlib.Chance(r, 1, 4), true)
		return c
	},
}

func init() {
	vlib.Register(c02Model, c02PathSharing)
	genModelStructured = func(r vlib.Rnd) *vlib.Project {
		c, _, _ := genModelCaseT(r, false, true)
		return c.Project
	}
	genModelDoc = func(r vlib.Rnd) *vlib.Project {
		c, _, _ := genModelCase(r, false)
		return c.Project
	}
}

func TestC02(t *testing.T) {
	t.Run("model", c02Model.Run)
	t.Run("path-sharing", c02PathSharing.Run)
}
