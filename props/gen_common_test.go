package props

import (
	"fmt"
	"regexp"
	"strings"
	"sync"

	"verif/vlib"
)

// ---- shared generators -----------------------------------------------------------------------------------------

var (
	seedOnce   sync.Once
	seedDocs   [][]byte // single-file corpus documents <= 3000 bytes + synthetic seeds
	seedSmall  [][]byte // <= 400 bytes
	seedMulti  []*vlib.Project
	synthSeeds = []string{
		"",
		"JSIGHT 0.3\n",
		"JSIGHT 0.3\nGET /a\n  200 any\n",
		"JSIGHT 0.3\nURL /a/{id}\n  GET\n    200\n      {\"id\": 1}\n  Path\n    {\"id\": 1}\n",
		"JSIGHT 0.3\nTYPE @a\n  {\"id\": 1, \"b\": @b}\nTYPE @b\n  \"x\" // {minLength: 1}\nGET /a\n  200 @a\n",
		"JSIGHT 0.3\nMACRO @m\n  200 any\n  404 empty\nGET /a\n  PASTE @m\nPOST /a\n  PASTE @m\n",
		"JSIGHT 0.3\nENUM @e\n  [1, \"a\", null]\nTYPE @t\n  {\"k\": 1 // {enum: @e}\n}\n",
		"JSIGHT 0.3\nINFO\n  Title \"t\"\n  Version 1\n  Description\n    text\nSERVER @s\n  BaseUrl \"https://x\"\n",
		"JSIGHT 0.3\nURL /rpc\n  Protocol json-rpc-2.0\n  Method foo\n    Params\n      {}\n    Result\n      1\n",
		"JSIGHT 0.3\nTAG @t // note\n  Description\n    d\nGET /a\n  Tags @t\n  200 any\n",
		"JSIGHT 0.3\nPOST /a // ann\n  Request\n    Headers\n      {\"h\": \"v\"}\n    Body regex\n      /ab+/\n  200\n    Headers\n      {\"h\": \"v\"}\n    Body any\n",
		"JSIGHT 0.3\nINCLUDE inc.jst\nGET /a\n  200 @inc\n",
		"JSIGHT 0.3\nGET /a\n  INCLUDE resp.jst\n",
		"JSIGHT 0.3\nGET /a\n  Query \"a=1\" htmlFormEncoded\n    {\"a\": 1}\n  OperationId op1\n  200 any\n",
		"JSIGHT 0.3\nURL /a\n(\n  GET\n  (\n    200 any\n  )\n)\n",
		"JSIGHT 0.3\nTYPE @r regex\n  /a+/\nGET /a/{id}\n  Path\n    {\"id\": @r}\n  200 [@r]\n",
		"JSIGHT 0.3\nTYPE @r regex\n  /abc/\nGET /a/{id}\n  Path\n    @r\n  200 any\n",
		"JSIGHT 0.3\nTYPE @o\n  {\"id\": 1}\nGET /a/{id}\n  Path\n    @o\n  200 any\n",
		"JSIGHT 0.3\nTYPE @o\n  {\"id\": 1}\nURL /a/{id}/{k}\n  Path\n    { // {allOf: \"@o\"}\n      \"k\": \"x\"\n    }\n  GET\n    200 any\n",
		"JSIGHT 0.3\nTYPE @e empty\nTYPE @y any\nGET /a/{id}\n  Path\n    {\"id\": @y}\n  200 @e\n",
		"JSIGHT 0.3\nTYPE @cat\n  {\"c\": 1}\nTYPE @dog\n  {\"d\": 2}\nTYPE @base\n  {\n    \"pet\": @cat|@dog,\n    \"other\": @cat  |  @dog\n  }\nTYPE @child\n  { // {allOf: \"@base\"}\n    \"own\": 1\n  }\nGET /pets\n  200 @child\n",
		"JSIGHT 0.3\nTYPE @b1\n  {\"x\": 1}\nTYPE @b2\n  { // {allOf: \"@b1\"}\n    \"y\": @b1 | @b2 // {optional: true}\n  }\nTYPE @b3\n  { // {allOf: [\"@b2\"]}\n    \"z\": [@b3] // {optional: true}\n  }\nPOST /b\n  Request @b3\n  200 [@b2]\n",
		"JSIGHT 0.3\nGET /shelves/{id}/books/{ID}\n  200 any\nDELETE /shelves/{id}/books/{ID}\n  204 empty\n",
		"JSIGHT 0.3\nPOST /cats\n  Request\n    {\"a\": 1}\n  201 any\nPUT /cats/{id}\n  Request any\n  200\n    {\"ok\": true}\n  404 empty\n",
		"JSIGHT 0.3\nGET /a/{x}/{y}\n  Path\n    {\n      \"x\": 7 // {min: 5}\n    }\n  200 any\nURL /users/{id}/posts/{postId}\n  Path\n    {\"id\": 1}\n  GET\n    200 any\n",
	}
)

func loadSeeds() {
	seedOnce.Do(func() {
		for _, e := range vlib.Corpus() {
			if len(e.Project.Files) == 1 {
				b := e.Project.RootBytes()
				if len(b) <= 3000 {
					seedDocs = append(seedDocs, b)
				}
				if len(b) <= 400 {
					seedSmall = append(seedSmall, b)
				}
			} else {
				seedMulti = append(seedMulti, e.Project)
			}
		}
		for _, s := range synthSeeds {
			seedDocs = append(seedDocs, []byte(s))
			seedSmall = append(seedSmall, []byte(s))
		}
	})
}

// genMutated draws a corpus/synthetic seed and mutates it (0..n rounds).
func genMutated(r vlib.Rnd, maxLen int) []byte {
	loadSeeds()
	var in []byte
	if vlib.Chance(r, 1, 3) {
		in = vlib.Pick(r, seedSmall)
	} else {
		in = vlib.Pick(r, seedDocs)
	}
	rounds := 1 + r.Intn(3)
	for i := 0; i < rounds; i++ {
		in = vlib.Mutate(r, seedSmall, in, maxLen)
	}
	return in
}

// ---- directive soup: grammar-level random documents (legal or not) ---------------------------------------------

var soupKeywords = []string{
	"JSIGHT", "INFO", "Title", "Version", "Description", "SERVER", "BaseUrl", "URL", "GET", "POST", "PUT", "PATCH", "DELETE",
	"Body", "Request", "Path", "Headers", "Query", "TYPE", "ENUM", "MACRO", "PASTE", "INCLUDE", "Protocol", "Method", "Params",
	"Result", "TAG", "Tags", "OperationId", "200", "404", "100", "599",
}

var soupParams = []string{
	"0.3", "@a", "@b", "@m", "@t", "/a", "/a/{id}", "/{id}/b", "\"/q s\"", "any", "empty", "regex", "jsight", "json-rpc-2.0", "foo",
	"\"title\"", "1.0", "\"https://x.y\"", "inc.jst", "resp.jst", "empty.jst", "self.jst", "a.jst", "sub/inc2.jst", "nope.jst", "\"\"", "..", ".",
	"[@a]", "htmlFormEncoded", "noFormat", "\"a=1\"", "op1", "@a @b", "x",
}

var soupAnnots = []string{"// note", "/* note */", "// multi\n", "/* a\n b */", "//", "/**/", "/*/", "// \"q\"", "/* # */ # c"}

var soupBodies = []string{
	"{}", "{\"id\": 1}", "[]", "[1, 2]", "1", "\"s\"", "null", "true", "@a", "@a | @b", "[@a]", "/ab+/", "/[a-/", "text line",
	"{\"id\": 1 // {min: 0}\n}", "{\"a\": @a // {optional: true}\n}", "{\"k\": 1 // {enum: @e}\n}", "[\"x\", 1, null]", "[\"\", \"x\"]/*",
	"{\"id\": @a | @b}", "@a // {or: [\"uuid\",\"email\"], nullable:false}", "1 // {or: [\"integer\", \"string\"]}", "\"x\" // {or: [{type: \"string\", minLength: 1}, \"@a\"]}", "{ // {allOf: \"@a\"}\n}", "{\"@a\": 1}", "12.5", "{\"id\": 1", "\"unterminated", "text ( with parens )",
}

// genSoup produces up to maxLines directive lines with random parameters, annotations, parentheses and bodies.
func genSoup(r vlib.Rnd, maxLines int) []byte {
	var sb strings.Builder
	nl := vlib.Pick(r, []string{"\n", "\n", "\n", "\r\n", "\r"})
	if vlib.Chance(r, 5, 6) {
		sb.WriteString("JSIGHT 0.3" + nl)
	}
	n := 1 + r.Intn(maxLines)
	depth := 0
	for i := 0; i < n; i++ {
		ind := strings.Repeat(vlib.Pick(r, []string{"  ", "  ", "\t", ""}), depth)
		switch r.Intn(12) {
		case 0:
			sb.WriteString(ind + "(" + nl)
			continue
		case 1:
			sb.WriteString(ind + ")" + nl)
			continue
		case 2:
			sb.WriteString(ind + vlib.Pick(r, []string{"# c", "###\nblock\n###", "", "   "}) + nl)
			continue
		}
		sb.WriteString(ind + vlib.Pick(r, soupKeywords))
		np := r.Intn(3)
		if vlib.Chance(r, 1, 10) {
			np = 3
		}
		for j := 0; j < np; j++ {
			sb.WriteString(" " + vlib.Pick(r, soupParams))
		}
		if vlib.Chance(r, 1, 5) {
			sb.WriteString(" " + vlib.Pick(r, soupAnnots))
		}
		if vlib.Chance(r, 1, 8) {
			sb.WriteString(nl + ind + "(")
		}
		if vlib.Chance(r, 2, 5) {
			body := vlib.Pick(r, soupBodies)
			sb.WriteString(nl + ind + "  " + strings.ReplaceAll(body, "\n", nl+ind+"  "))
		}
		if i == n-1 && vlib.Chance(r, 1, 4) {
			break // no final newline
		}
		sb.WriteString(nl)
		switch r.Intn(4) {
		case 0:
			depth++
		case 1:
			if depth > 0 {
				depth--
			}
		}
		if depth > 4 {
			depth = 4
		}
	}
	return []byte(sb.String())
}

// ---- macro graphs -----------------------------------------------------------------------------------------------

// macroGraphDoc renders a MACRO/PASTE call graph.  edges[i] lists the macros pasted by macro i (in order); roots lists the
// macros pasted from the use site; ctx selects where the use site is.
func macroGraphDoc(n int, edges [][]int, roots []int, ctx int, explicitBody bool, defsFirst bool) []byte {
	var defs, use strings.Builder
	leaf := []string{"200 any", "404 empty", "Description\n    text", "Headers\n    {\"h\": 1}"}
	for i := 0; i < n; i++ {
		fmt.Fprintf(&defs, "MACRO @m%d\n", i)
		if explicitBody {
			defs.WriteString("(\n")
		}
		switch ctx {
		case 0, 1, 2: // method-level content
			fmt.Fprintf(&defs, "  %d any\n", 201+i)
		case 3: // response-level content
			defs.WriteString("  Headers\n    {\"h" + fmt.Sprint(i) + "\": 1}\n")
		case 4: // root-level content
			fmt.Fprintf(&defs, "  TYPE @t%d\n    %d\n", i, i)
		}
		for _, j := range edges[i] {
			fmt.Fprintf(&defs, "  PASTE @m%d\n", j)
		}
		if explicitBody {
			defs.WriteString(")\n")
		}
	}
	_ = leaf
	pastes := func(ind string) string {
		var s strings.Builder
		for _, j := range roots {
			fmt.Fprintf(&s, "%sPASTE @m%d\n", ind, j)
		}
		return s.String()
	}
	switch ctx {
	case 0: // method
		use.WriteString("GET /a\n" + pastes("  "))
	case 1: // URL + method in explicit context
		use.WriteString("URL /a\n(\n  GET\n  (\n" + pastes("    ") + "  )\n)\n")
	case 2: // two methods
		use.WriteString("GET /a\n" + pastes("  ") + "POST /a\n" + pastes("  "))
	case 3: // response
		use.WriteString("GET /a\n  200\n    Body any\n" + pastes("    "))
	case 4: // root
		use.WriteString(pastes("") + "GET /a\n  200 any\n")
	}
	if defsFirst {
		return []byte("JSIGHT 0.3\n" + defs.String() + use.String())
	}
	return []byte("JSIGHT 0.3\n" + use.String() + defs.String())
}

// hasCycleFrom reports whether a cycle is reachable from the roots, and whether every referenced macro exists.
func macroGraphFacts(n int, edges [][]int, roots []int) (cycleReachable bool, undefinedReachable bool, anyCycle bool, cycleLen int) {
	state := make([]int, n) // 0 new, 1 on stack, 2 done
	var stack []int
	var dfs func(i int) bool
	minLen := 0
	dfs = func(i int) bool {
		if i >= n {
			undefinedReachable = true
			return false
		}
		if state[i] == 1 {
			// cycle: length = distance on stack
			for k := len(stack) - 1; k >= 0; k-- {
				if stack[k] == i {
					l := len(stack) - k
					if minLen == 0 || l < minLen {
						minLen = l
					}
					break
				}
			}
			return true
		}
		if state[i] == 2 {
			return false
		}
		state[i] = 1
		stack = append(stack, i)
		found := false
		for _, j := range edges[i] {
			if dfs(j) {
				found = true
			}
		}
		stack = stack[:len(stack)-1]
		state[i] = 2
		return found
	}
	for _, r := range roots {
		if dfs(r) {
			cycleReachable = true
		}
	}
	undefFromRoots := undefinedReachable
	defer func() { undefinedReachable = undefFromRoots }()
	// any cycle anywhere (also unreachable ones)
	for i := 0; i < n; i++ {
		if state[i] == 0 {
			if dfs(i) {
				anyCycle = true
			}
		}
	}
	anyCycle = anyCycle || cycleReachable
	return cycleReachable, undefinedReachable, anyCycle, minLen
}

func genMacroGraph(r vlib.Rnd, maxNodes, maxOut int) (n int, edges [][]int, roots []int) {
	n = 1 + r.Intn(maxNodes)
	edges = make([][]int, n)
	for i := 0; i < n; i++ {
		k := r.Intn(maxOut + 1)
		for j := 0; j < k; j++ {
			t := r.Intn(n + 1) // n = undefined macro (rare)
			if t == n && !vlib.Chance(r, 1, 6) {
				t = r.Intn(n)
			}
			edges[i] = append(edges[i], t)
		}
	}
	k := 1 + r.Intn(2)
	for j := 0; j < k; j++ {
		roots = append(roots, r.Intn(n))
	}
	return
}

// expansionSize bounds the number of directives after expansion (to keep legal graphs small); returns -1 on cycles.
func expansionSize(n int, edges [][]int, roots []int, limit int) int {
	memo := make([]int, n)
	state := make([]int, n)
	var size func(i int) int
	size = func(i int) int {
		if i >= n {
			return 1
		}
		if state[i] == 1 {
			return -1
		}
		if state[i] == 2 {
			return memo[i]
		}
		state[i] = 1
		s := 1
		for _, j := range edges[i] {
			x := size(j)
			if x < 0 {
				return -1
			}
			s += x
			if s > limit {
				s = limit + 1
				break
			}
		}
		state[i] = 2
		memo[i] = s
		return s
	}
	tot := 0
	for _, r := range roots {
		x := size(r)
		if x < 0 {
			return -1
		}
		tot += x
	}
	return tot
}

var quotedRe = regexp.MustCompile(`"[^"]*"|'[^']*'`)
