package props

import (
	"bytes"
	"fmt"
	"strings"
	"testing"

	"pgregory.net/rapid"

	"verif/vlib"
)

// C16 – serialising is repeatable and does not change the catalog.  Model-based: the model maps each accessor to the
// first observed (bytes | error text | panic); every later call of that accessor must agree.

var c16Accessors = []string{"ToJson", "ToJsonIndent", "ToOpenAPIJson", "ToOpenAPIJsonIndent", "Title"}

func c16Call(b *vlib.Built, op string) (res string) {
	var out []byte
	var err error
	sig, text, _ := vlib.Safely(func() {
		switch op {
		case "ToJson":
			out, err = b.Api.ToJson()
		case "ToJsonIndent":
			out, err = b.Api.ToJsonIndent()
		case "ToOpenAPIJson":
			out, err = b.Api.ToOpenAPIJson()
		case "ToOpenAPIJsonIndent":
			out, err = b.Api.ToOpenAPIJsonIndent()
		case "Title":
			out = []byte(b.Api.Title())
		default:
			panic("harness: unknown accessor " + op)
		}
	})
	switch {
	case sig != "":
		return "PANIC " + text
	case err != nil:
		return "ERROR " + err.Error()
	}
	if op != "Title" {
		c16Retain = out
	}
	return "OK " + string(out)
}

// c16Retain receives the slice returned by the last successful accessor call (single-threaded use inside one oracle call).
var c16Retain []byte

func c16Oracle(c *vlib.Case) *vlib.Violation {
	b := vlib.Build(c.Project)
	defer b.Close()
	if !b.Out.OK() {
		return nil
	}
	model := map[string]string{}
	// the slices handed out by earlier calls, with a copy taken at that moment: a later call must not write into them
	type handed struct {
		op   string
		at   int
		raw  []byte
		copy string
	}
	var kept []handed
	defer func() { c16Retain = nil }()
	for i, op := range c.Ops {
		c16Retain = nil
		got := c16Call(b, op)
		if c16Retain != nil {
			kept = append(kept, handed{op, i, c16Retain, string(c16Retain)})
		}
		for _, h := range kept {
			if string(h.raw) != h.copy {
				d := firstDiffPos(h.copy, string(h.raw))
				return vlib.V("c16:"+h.op+":returned-bytes-modified-later", "the bytes returned by call #%d (%s) were modified by call #%d (%s), at byte %d:\n returned: %s\n now:      %s", h.at, h.op, i, op, d, around(h.copy, d), around(string(h.raw), d))
			}
		}
		want, seen := model[op]
		if !seen {
			model[op] = got
			continue
		}
		if got != want {
			d := firstDiffPos(want, got)
			return vlib.V("c16:"+op+":"+kindOf(want)+"-then-"+kindOf(got),
				"call #%d (%s) after %v differs from the first %s result at byte %d:\n first: %s\n now:   %s", i, op, c.Ops[:i], op, d, around(want, d), around(got, d))
		}
	}
	return nil
}

func kindOf(s string) string {
	if i := strings.IndexByte(s, ' '); i > 0 {
		return strings.ToLower(s[:i])
	}
	return "ok"
}

func firstDiffPos(a, b string) int {
	n := len(a)
	if len(b) < n {
		n = len(b)
	}
	for i := 0; i < n; i++ {
		if a[i] != b[i] {
			return i
		}
	}
	return n
}

func around(s string, i int) string {
	lo, hi := i-60, i+60
	if lo < 0 {
		lo = 0
	}
	if hi > len(s) {
		hi = len(s)
	}
	return fmt.Sprintf("%q", s[lo:hi])
}

func c16Classify(c *vlib.Case) (bool, []string) {
	b := vlib.Build(c.Project)
	defer b.Close()
	if !b.Out.OK() {
		return false, []string{"rejected"}
	}
	cls := []string{"accepted"}
	// non-trivial: some accessor called >= 2 times with a different accessor in between
	nt := false
	last := map[string]int{}
	for i, op := range c.Ops {
		if j, ok := last[op]; ok && i-j >= 2 {
			nt = true
		}
		if _, ok := last[op]; !ok {
			last[op] = i
		}
	}
	js, _ := b.Api.ToJson()
	if bytes.Contains(js, []byte(`"notation":"regex"`)) {
		cls = append(cls, "has-regex")
	}
	if bytes.Contains(js, []byte(`"inheritedFrom"`)) {
		cls = append(cls, "has-allOf")
	}
	if bytes.Contains(js, []byte(`"pathVariables"`)) {
		cls = append(cls, "has-path-variables")
	}
	if nt {
		cls = append(cls, "interleaved-repeat")
	}
	return nt, cls
}

var c16Seeds = []string{
	"JSIGHT 0.3\nTYPE @r regex\n  /[a-z]{2,9}/\nGET /a/{id}\n  Path\n    {\"id\": @r}\n  200\n    {\"x\": @r, \"y\": [@r]}\n",
	"JSIGHT 0.3\nINFO\n  Title \"T\"\nTYPE @b\n  {\"x\": 1}\nTYPE @c\n  { // {allOf: \"@b\"}\n    \"y\": 2\n  }\nTYPE @d\n  { // {allOf: [\"@c\"]}\n    \"z\": @c\n  }\nPOST /c\n  Request @d\n  200 @c\n",
	"JSIGHT 0.3\nGET /a\n  200 regex\n    /x[0-9]+y/\nPOST /a\n  Request regex\n    /q+/\n  200 any\n",
	"JSIGHT 0.3\nTYPE @a empty\nGET /a\n  200 @a\n",
}

var c16Machine = &vlib.Check{
	Prop: "C16", Name: "histories", Quick: 6000, Thorough: 400000,
	Oracle: c16Oracle, Classify: c16Classify,
	Gen: func(t *rapid.T) *vlib.Case {
		r := vlib.RapidRnd{T: t}
		var p *vlib.Project
		if vlib.Chance(r, 1, 4) {
			p = vlib.SingleFile([]byte(vlib.Pick(r, c16Seeds)))
		} else {
			p = genAccepted(r)
		}
		// the call history is generated with rapid's state-machine driver so that it shrinks as one value
		var ops []string
		actions := map[string]func(*rapid.T){}
		for _, a := range c16Accessors {
			a := a
			actions[a] = func(*rapid.T) {
				if len(ops) < 6 {
					ops = append(ops, a)
				}
			}
		}
		t.Repeat(actions)
		if len(ops) < 2 {
			ops = append(ops, "ToJson", "ToOpenAPIJson", "ToJson")
		}
		return &vlib.Case{Project: p, Ops: ops}
	},
}

// c16FailingDoc: one method whose responses are a mix of exportable ones and ones the OpenAPI converter refuses in
// different ways (a schema it panics on, the same code with an empty and a non-empty body).  Which refusal is reported
// must not change from call to call.
func c16FailingDoc(r vlib.Rnd) string {
	var sb strings.Builder
	sb.WriteString("JSIGHT 0.3\n\n")
	nm := 1 + r.Intn(2)
	for m := 0; m < nm; m++ {
		fmt.Fprintf(&sb, "%s /p%d\n", vlib.Pick(r, []string{"GET", "POST", "PUT"}), m)
		codes := []int{200, 201, 204, 400, 404, 409, 500, 503}
		n := 2 + r.Intn(4)
		for i := 0; i < n; i++ {
			k := r.Intn(len(codes))
			code := codes[k]
			codes = append(codes[:k], codes[k+1:]...)
			switch r.Intn(6) {
			case 0:
				fmt.Fprintf(&sb, "  %d any\n", code)
			case 1:
				fmt.Fprintf(&sb, "  %d\n    {\"x\": 1}\n", code)
			case 2, 3:
				fmt.Fprintf(&sb, "  %d\n    1 // {or: [{type: \"string\"}, {type: \"enum\", enum: [1,2,3]}]}\n", code)
			case 4:
				fmt.Fprintf(&sb, "  %d empty\n  %d any\n", code, code)
			default:
				fmt.Fprintf(&sb, "  %d any\n  %d empty\n", code, code)
			}
		}
		sb.WriteString("\n")
	}
	return sb.String()
}

// c16FailingOracle runs the (length <= 6) history on several fresh builds: the choice between two refusals is made by a
// map iteration, one history alone may not show it.
func c16FailingOracle(c *vlib.Case) *vlib.Violation {
	for i := 0; i < 10; i++ {
		if v := c16Oracle(c); v != nil {
			return v
		}
	}
	return nil
}

var c16Failing = &vlib.Check{
	Prop: "C16", Name: "failing-exports", Quick: 300, Thorough: 20000,
	Oracle: c16FailingOracle,
	Gen: func(t *rapid.T) *vlib.Case {
		r := vlib.RapidRnd{T: t}
		ops := []string{"ToOpenAPIJson", "ToOpenAPIJsonIndent", "ToOpenAPIJson", "ToOpenAPIJsonIndent", "ToOpenAPIJson", "ToOpenAPIJsonIndent"}
		if vlib.Chance(r, 1, 3) {
			ops = []string{"ToOpenAPIJson", "ToJson", "ToOpenAPIJson", "ToOpenAPIJson", "Title", "ToOpenAPIJson"}
		}
		return &vlib.Case{Project: vlib.SingleFile([]byte(c16FailingDoc(r))), Ops: ops}
	},
	Classify: func(c *vlib.Case) (bool, []string) {
		b := vlib.Build(c.Project)
		defer b.Close()
		if !b.Out.OK() {
			return false, []string{"rejected"}
		}
		src := string(c.Project.RootBytes())
		kinds := 0
		if strings.Contains(src, "enum: [1,2,3]") {
			kinds++
		}
		if strings.Contains(src, " empty\n") {
			kinds++
		}
		first := c16Call(b, "ToOpenAPIJson")
		cls := []string{"accepted", "first-export:" + kindOf(first), fmt.Sprintf("refusal-kinds-%d", kinds)}
		return kindOf(first) == "error" && kinds >= 2, cls
	},
}

var c16Corpus = &vlib.Check{Prop: "C16", Name: "corpus", Oracle: c16Oracle, Classify: c16Classify}

func init() { vlib.Register(c16Machine, c16Corpus, c16Failing) }

func TestC16(t *testing.T) {
	if vlib.Shard() == 0 {
		t.Run("corpus", func(t *testing.T) {
			// every accepted corpus/synthetic project under a fixed interleaving that repeats every accessor
			hist := [][]string{
				{"ToJson", "ToJsonIndent", "ToJson", "ToOpenAPIJson", "ToJsonIndent", "ToOpenAPIJson"},
				{"ToOpenAPIJsonIndent", "ToJson", "ToOpenAPIJsonIndent", "Title", "ToJson", "Title"},
			}
			pool := acceptedProjects()
			for _, s := range c16Seeds {
				pool = append(pool, vlib.SingleFile([]byte(s)))
			}
			i := 0
			c16Corpus.RunEnum(t, func() *vlib.Case {
				if i >= len(pool)*len(hist) {
					return nil
				}
				i++
				return &vlib.Case{Project: pool[(i-1)/len(hist)], Ops: hist[(i-1)%len(hist)]}
			})
		})
	}
	t.Run("histories", c16Machine.Run)
	t.Run("failing-exports", c16Failing.Run)
}
