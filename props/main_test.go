package props

import (
	"os"
	"strings"
	"testing"

	"verif/vlib"
)

func TestMain(m *testing.M) {
	if os.Getenv("VERIF_WORKER") == "1" {
		vlib.WorkerMain(vlib.WorkerOracle)
		vlib.Cleanup()
		return
	}
	code := m.Run()
	if vlib.SharedIsoStarted() {
		vlib.SharedIso().Close()
	}
	vlib.FlushAll()
	vlib.Cleanup()
	os.Exit(code)
}

// TestReplay runs the replay files named in VERIF_REPLAY_FILES (newline separated) through the plain oracles.
func TestReplay(t *testing.T) {
	files := os.Getenv("VERIF_REPLAY_FILES")
	if files == "" {
		t.Skip("no replay files")
	}
	vlib.ReplayFiles(t, strings.Split(files, "\n"))
}
