package props

import (
	"fmt"
	"sort"
	"strings"
	"testing"

	"github.com/jsightapi/jsight-schema-core/fs"
	"pgregory.net/rapid"

	"github.com/jsightapi/jsight-api-core/core"
	"github.com/jsightapi/jsight-api-core/directive"

	"verif/vlib"
)

// C11 – directive nesting follows the context table.  An independent stack automaton (written from the property text and
// the JSight API 0.3 context table, transcribed below and frozen) predicts accept / reject-with-class, the line of the
// rejected directive, and the parent of every directive; it is compared with the implementation exhaustively on short
// sequences and on random longer ones.

type ctxKind struct {
	name    string // name in the context table
	text    string // head line
	body    string // body line ("" = none)
	canOpen bool   // may be followed by "("
	hasPath bool
}

var ctxKinds = []ctxKind{
	{"JSIGHT", "JSIGHT 0.3", "", true, false},
	{"INFO", "INFO", "", true, false},
	{"Title", `Title "t"`, "", true, false},
	{"Version", "Version 1", "", true, false},
	{"Description", "Description", "some text", false, false},
	{"SERVER", "SERVER @s", "", true, false},
	{"BaseUrl", `BaseUrl "http://x"`, "", true, false},
	{"URL", "URL /u", "", true, false},
	{"GET", "GET /p", "", true, true},
	{"GET", "GET", "", true, false},
	{"POST", "POST /p", "", true, true},
	{"POST", "POST", "", true, false},
	{"PUT", "PUT /p", "", true, true},
	{"PUT", "PUT", "", true, false},
	{"PATCH", "PATCH /p", "", true, true},
	{"PATCH", "PATCH", "", true, false},
	{"DELETE", "DELETE /p", "", true, true},
	{"DELETE", "DELETE", "", true, false},
	{"Body", "Body any", "", true, false},
	{"Request", "Request any", "", true, false},
	{"HTTP-response-code", "200 any", "", true, false},
	{"Path", "Path", "{}", true, false},
	{"Headers", "Headers", "{}", true, false},
	{"Query", "Query", "{}", true, false},
	{"TYPE", "TYPE @t", "1", true, false},
	{"ENUM", "ENUM @e", "[1]", true, false},
	{"MACRO", "MACRO @m", "", true, false},
	{"PASTE", "PASTE @undefinedMacro", "", true, false},
	{"INCLUDE", "INCLUDE empty.jst", "", false, false},
	{"Protocol", "Protocol json-rpc-2.0", "", true, false},
	{"Method", "Method foo", "", true, false},
	{"Params", "Params", "[]", true, false},
	{"Result", "Result", "1", true, false},
	{"TAG", "TAG @g", "", true, false},
	{"Tags", "Tags @g", "", true, false},
	{"OperationId", "OperationId op", "", true, false},
	// (appended: the indexes of the forms above are part of the replay files)
	{"GET", `GET ""`, "", true, false}, // an empty quoted path is no path: the method belongs to the URL
}

func cset(ss ...string) map[string]bool {
	m := map[string]bool{}
	for _, s := range ss {
		m[s] = true
	}
	return m
}

// the JSight API 0.3 context table (which directive may be a direct child of which)
var (
	ctxRootAllowed = cset("JSIGHT", "INFO", "SERVER", "URL", "GET", "POST", "PUT", "PATCH", "DELETE", "TYPE", "ENUM", "MACRO", "PASTE", "TAG")
	ctxMethodKids  = cset("Description", "Request", "HTTP-response-code", "Path", "Query", "PASTE", "Tags", "OperationId")
	ctxAllowed     = map[string]map[string]bool{
		"URL": cset("GET", "POST", "PUT", "PATCH", "DELETE", "Path", "PASTE", "Protocol", "Method", "Tags"),
		"GET": ctxMethodKids, "POST": ctxMethodKids, "PUT": ctxMethodKids, "PATCH": ctxMethodKids, "DELETE": ctxMethodKids,
		"HTTP-response-code": cset("Body", "Headers", "PASTE"),
		"Request":            cset("Body", "Headers", "PASTE"),
		"INFO":               cset("Title", "Version", "Description", "PASTE"),
		"SERVER":             cset("BaseUrl", "PASTE"),
		"Method":             cset("Description", "Params", "Result", "Tags"),
		"TAG":                cset("Description"),
		"MACRO": cset("INFO", "Title", "Version", "Description", "SERVER", "BaseUrl", "URL", "GET", "POST", "PUT", "PATCH", "DELETE",
			"Body", "Request", "HTTP-response-code", "Path", "Headers", "Query", "TYPE", "ENUM", "PASTE"),
	}
)

func ctxIsMethod(k string) bool {
	return k == "GET" || k == "POST" || k == "PUT" || k == "PATCH" || k == "DELETE"
}

type ctxNode struct {
	kind     string
	explicit bool
	hasPath  bool
	line     int
	parent   *ctxNode
	kids     []*ctxNode
}

func (n *ctxNode) str() string {
	s := n.kind
	if len(n.kids) > 0 {
		var kk []string
		for _, k := range n.kids {
			kk = append(kk, k.str())
		}
		s += "[" + strings.Join(kk, ",") + "]"
	}
	return s
}

// item encoding: -1 = ")", otherwise 2*kindIndex + (1 if followed by "(")
type ctxVerdict struct {
	class string // "" accepted by the context rules | ctx | ctxpath | noclose | unclosed | nodirective
	line  int
	tree  string
}

// ctxReference is the reference automaton.
func ctxReference(items []int, lines []int) ctxVerdict {
	var cur *ctxNode
	var roots []*ctxNode
	var pending *ctxNode
	place := func(d *ctxNode) *ctxVerdict {
		for {
			if cur == nil {
				if ctxRootAllowed[d.kind] {
					roots = append(roots, d)
					cur = d
					return nil
				}
				return &ctxVerdict{class: "ctx", line: d.line}
			}
			if ctxAllowed[cur.kind][d.kind] {
				if ctxIsMethod(d.kind) && d.hasPath && cur.kind == "URL" {
					if cur.explicit {
						// an explicit context never closes silently
						return &ctxVerdict{class: "ctxpath", line: d.line}
					}
					// a method with its own path leaves the implicit URL; at root level it starts a new root
					cur = cur.parent
					continue
				}
				d.parent = cur
				cur.kids = append(cur.kids, d)
				cur = d
				return nil
			}
			if cur.explicit {
				return &ctxVerdict{class: "ctx", line: d.line}
			}
			cur = cur.parent // implicit contexts close silently on the way
		}
	}
	flush := func() *ctxVerdict {
		if pending == nil {
			return nil
		}
		d := pending
		pending = nil
		return place(d)
	}
	for i, it := range items {
		if it == -2 {
			// the generator writes it only where the directive before it has its parenthesis already, after a ")" and at the
			// very beginning: nothing can own it, and it is met before the pending directive is placed
			return ctxVerdict{class: "nodirective", line: lines[i]}
		}
		if it == -1 {
			if v := flush(); v != nil {
				return *v
			}
			for { // ")" closes the innermost explicit context
				if cur == nil {
					return ctxVerdict{class: "noclose", line: lines[i]}
				}
				if cur.explicit {
					cur = cur.parent
					break
				}
				cur = cur.parent
			}
			continue
		}
		kd := ctxKinds[it/2]
		if v := flush(); v != nil {
			return *v
		}
		if kd.name == "INCLUDE" {
			continue // an INCLUDE of an empty file ends the previous directive and contributes nothing
		}
		pending = &ctxNode{kind: kd.name, explicit: it%2 == 1, hasPath: kd.hasPath, line: lines[i]}
	}
	if v := flush(); v != nil {
		return *v
	}
	for c := cur; c != nil; c = c.parent {
		if c.explicit {
			return ctxVerdict{class: "unclosed"}
		}
	}
	var rs []string
	for _, r := range roots {
		rs = append(rs, r.str())
	}
	return ctxVerdict{tree: strings.Join(rs, ";")}
}

func ctxRender(items []int) (string, []int) {
	var sb strings.Builder
	lines := make([]int, len(items))
	ln := 1
	w := func(s string) { sb.WriteString(s + "\n"); ln++ }
	for i, it := range items {
		lines[i] = ln
		if it == -1 {
			w(")")
			continue
		}
		if it == -2 {
			w("(") // an opening parenthesis that no directive can own (random sequences only)
			continue
		}
		kd := ctxKinds[it/2]
		w(kd.text)
		if it%2 == 1 {
			w("(")
		}
		if kd.body != "" {
			w("  " + kd.body)
		}
	}
	return sb.String(), lines
}

func ctxDirStr(d *directive.Directive) string {
	s := d.Type().String()
	if len(d.Children) > 0 {
		var kk []string
		for _, k := range d.Children {
			kk = append(kk, ctxDirStr(k))
		}
		s += "[" + strings.Join(kk, ",") + "]"
	}
	return s
}

func ctxImpl(text string) (v ctxVerdict, laterErr string, panicked string) {
	sig, ptxt, _ := vlib.Safely(func() {
		dir := vlib.WorkDir() + "/play"
		c := core.NewJApiCore(fs.NewFile(dir+"/root.jst", text))
		je := c.BuildCatalog()
		if je != nil {
			switch {
			case strings.HasPrefix(je.Msg, "incorrect context for the directive") && strings.Contains(je.Msg, "with the \"Path\" parameter"):
				v = ctxVerdict{class: "ctxpath", line: int(je.Line)}
				return
			case strings.HasPrefix(je.Msg, "incorrect context for the directive"):
				v = ctxVerdict{class: "ctx", line: int(je.Line)}
				return
			case strings.HasPrefix(je.Msg, "nothing to close"):
				v = ctxVerdict{class: "noclose", line: int(je.Line)}
				return
			case strings.HasPrefix(je.Msg, "this opening parenthesis is not closed"):
				v = ctxVerdict{class: "unclosed"}
				return
			case strings.HasPrefix(je.Msg, "there is no directive to which this element could belong"):
				v = ctxVerdict{class: "nodirective", line: int(je.Line)}
				return
			}
			laterErr = je.Msg
		}
		// context rules passed: the tree as scanned = remaining roots + collected macros, in text order
		type rt struct {
			pos uint
			s   string
		}
		var rr []rt
		for _, d := range c.VerifDirectives() {
			rr = append(rr, rt{d.VerifKeywordBegin(), ctxDirStr(d)})
		}
		seen := map[uint]bool{}
		for _, r := range rr {
			seen[r.pos] = true
		}
		for _, d := range c.VerifMacros() {
			if !seen[d.VerifKeywordBegin()] {
				rr = append(rr, rt{d.VerifKeywordBegin(), ctxDirStr(d)})
			}
		}
		sort.Slice(rr, func(i, j int) bool { return rr[i].pos < rr[j].pos })
		var ss []string
		for _, r := range rr {
			ss = append(ss, r.s)
		}
		v = ctxVerdict{tree: strings.Join(ss, ";")}
	})
	if sig != "" {
		panicked = sig + " " + ptxt
	}
	return
}

func ctxItems(c *vlib.Case) []int {
	raw, _ := c.Params["items"].([]any)
	var items []int
	for _, x := range raw {
		switch n := x.(type) {
		case float64:
			items = append(items, int(n))
		case int:
			items = append(items, n)
		}
	}
	return items
}

func c11Oracle(c *vlib.Case) *vlib.Violation {
	items := ctxItems(c)
	text, lines := ctxRender(items)
	want := ctxReference(items, lines)
	got, later, panicked := ctxImpl(text)
	if panicked != "" {
		return nil // crashes are C01's business
	}
	desc := func() string {
		return fmt.Sprintf("document %q: reference %s, implementation %s (later error %q)", text, ctxVerdictStr(want), ctxVerdictStr(got), later)
	}
	if got.class != want.class {
		return vlib.V("c11:verdict:"+want.class+"-vs-"+got.class, "%s", desc())
	}
	switch want.class {
	case "ctx", "ctxpath", "noclose":
		if got.line != want.line {
			return vlib.V("c11:error-line:"+want.class, "%s", desc())
		}
	case "":
		// a duplicate MACRO name (or another early macro error) stops before all macros are collected: the tree is then incomplete
		if later != "" && (strings.Contains(later, "already been declared") || strings.Contains(later, "macros cannot be empty") || strings.Contains(later, "annotation is not allowed")) {
			return nil
		}
		if got.tree != want.tree {
			return vlib.V("c11:tree", "%s", desc())
		}
	}
	return nil
}

func ctxVerdictStr(v ctxVerdict) string {
	if v.class == "" {
		return "accept tree=" + v.tree
	}
	return fmt.Sprintf("reject %s line %d", v.class, v.line)
}

func c11Classify(c *vlib.Case) (bool, []string) {
	items := ctxItems(c)
	_, lines := ctxRender(items)
	v := ctxReference(items, lines)
	cls := []string{"ref-" + v.class}
	if v.class == "" {
		cls = []string{"ref-accept"}
	}
	nt := false
	for _, it := range items {
		if it == -1 || it%2 == 1 {
			nt = true
			cls = append(cls, "explicit")
			break
		}
	}
	// walks up at least one level: accepted tree has a root after a nested directive, or any rejection
	if v.class != "" || strings.Contains(v.tree, "];") || strings.Contains(v.tree, "],") {
		nt = true
		cls = append(cls, "walk-up")
	}
	return nt, cls
}

func c11Alphabet() []int {
	var a []int
	for i, k := range ctxKinds {
		a = append(a, 2*i)
		if k.canOpen {
			a = append(a, 2*i+1)
		}
	}
	return append(a, -1)
}

func c11Case(items []int) *vlib.Case {
	text, _ := ctxRender(items)
	raw := make([]any, len(items))
	for i, x := range items {
		raw[i] = x
	}
	return &vlib.Case{Project: vlib.SingleFile([]byte(text)), Params: map[string]any{"items": raw}}
}

var c11Enum = &vlib.Check{Prop: "C11", Name: "sequences", Oracle: c11Oracle, Classify: c11Classify,
	SampleOf: func(c *vlib.Case) any { return string(c.Project.RootBytes()) }}

var c11Random = &vlib.Check{
	Prop: "C11", Name: "random", Quick: 40000, Thorough: 1600000,
	Oracle: c11Oracle, Classify: c11Classify,
	SampleOf: func(c *vlib.Case) any { return string(c.Project.RootBytes()) },
	Gen: func(t *rapid.T) *vlib.Case {
		r := vlib.RapidRnd{T: t}
		alpha := c11Alphabet()
		n := 3 + r.Intn(8)
		items := make([]int, 0, n)
		// bias towards plausible nesting: start with JSIGHT often, pick children of the last directive often
		if vlib.Chance(r, 1, 2) {
			items = append(items, 0)
		}
		// an approximate open-context stack steers the choice towards sequences the table accepts
		type lvl struct {
			kind     string
			explicit bool
		}
		var stack []lvl
		for len(items) < n {
			if vlib.Chance(r, 11, 12) {
				// choose a level (innermost more often) and a directive allowed there
				d := len(stack)
				for d > 0 && vlib.Chance(r, 1, 3) && !stack[d-1].explicit {
					d--
				}
				var allowedHere map[string]bool
				if d == 0 {
					allowedHere = ctxRootAllowed
				} else {
					allowedHere = ctxAllowed[stack[d-1].kind]
				}
				var kids []int
				for _, a := range alpha {
					if a >= 0 && allowedHere[ctxKinds[a/2].name] {
						kids = append(kids, a)
					}
				}
				if len(kids) > 0 {
					it := vlib.Pick(r, kids)
					items = append(items, it)
					stack = append(stack[:d], lvl{ctxKinds[it/2].name, it%2 == 1})
					continue
				}
			}
			it := vlib.Pick(r, alpha)
			if it == -1 {
				for len(stack) > 0 {
					e := stack[len(stack)-1].explicit
					stack = stack[:len(stack)-1]
					if e {
						break
					}
				}
			} else if ctxKinds[it/2].name != "INCLUDE" {
				stack = append(stack, lvl{ctxKinds[it/2].name, it%2 == 1})
			}
			items = append(items, it)
		}
		if vlib.Chance(r, 2, 3) {
			for _, l := range stack {
				if l.explicit {
					items = append(items, -1)
				}
			}
		}
		if vlib.Chance(r, 1, 8) {
			// a second "(" for a directive that has one already, or a "(" after a ")" or at the very beginning
			var at []int
			at = append(at, 0)
			for i, it := range items {
				if it == -1 || (it >= 0 && it%2 == 1) {
					at = append(at, i+1)
				}
			}
			i := vlib.Pick(r, at)
			items = append(items[:i:i], append([]int{-2}, items[i:]...)...)
		}
		return c11Case(items)
	},
}

// c11Split: a run of directives (without parentheses and without JSIGHT) of a random sequence is moved into an included
// file: INCLUDE is a textual insertion, so the context rules give the verdict class of the unsplit sequence.
func ctxClassOf(msg string) string {
	switch {
	case strings.HasPrefix(msg, "incorrect context for the directive") && strings.Contains(msg, "with the \"Path\" parameter"):
		return "ctxpath"
	case strings.HasPrefix(msg, "incorrect context for the directive"):
		return "ctx"
	case strings.HasPrefix(msg, "nothing to close"):
		return "noclose"
	case strings.HasPrefix(msg, "this opening parenthesis is not closed"):
		return "unclosed"
	case strings.HasPrefix(msg, "there is no directive to which this element could belong"):
		return "nodirective"
	}
	return ""
}

func c11SplitOracle(c *vlib.Case) *vlib.Violation {
	items := ctxItems(c)
	_, lines := ctxRender(items)
	want := ctxReference(items, lines)
	b := vlib.Build(c.Project)
	defer b.Close()
	if b.Out.Crashed() {
		return nil
	}
	got := ""
	if b.Out.Err() {
		got = ctxClassOf(b.Out.Msg)
	}
	if got != want.class {
		return vlib.V("c11:split-verdict:"+want.class+"-vs-"+got, "sequence %v with items [%v,%v) moved into an included file: reference %s, implementation %s", items, c.Params["from"], c.Params["to"], ctxVerdictStr(want), b.Out.Brief())
	}
	return nil
}

var c11Split = &vlib.Check{
	Prop: "C11", Name: "split", Quick: 6000, Thorough: 300000,
	Oracle: c11SplitOracle,
	Classify: func(c *vlib.Case) (bool, []string) {
		nt, cls := c11Classify(c)
		return nt, append(cls, "split")
	},
	SampleOf: func(c *vlib.Case) any { return c.Project.Summary(300) },
	Gen: func(t *rapid.T) *vlib.Case {
		base := c11Random.Gen(t)
		r := vlib.RapidRnd{T: t}
		items := ctxItems(base)
		ok := func(it int) bool {
			return it >= 0 && it%2 == 0 && ctxKinds[it/2].name != "JSIGHT" && ctxKinds[it/2].name != "INCLUDE"
		}
		// a maximal run of movable items around a random position
		var starts []int
		for i := 1; i < len(items); i++ {
			if ok(items[i]) {
				starts = append(starts, i)
			}
		}
		if len(starts) == 0 {
			return nil
		}
		from := vlib.Pick(r, starts)
		to := from + 1
		for to < len(items) && ok(items[to]) && vlib.Chance(r, 2, 3) {
			to++
		}
		head, _ := ctxRender(items[:from])
		part, _ := ctxRender(items[from:to])
		tail, _ := ctxRender(items[to:])
		p := &vlib.Project{Root: "root.jst", Files: map[string][]byte{"root.jst": []byte(head + "INCLUDE part.jst\n" + tail), "part.jst": []byte(part), "empty.jst": {}}}
		base.Project = p
		base.Params["from"], base.Params["to"] = from, to
		return base
	},
}

var c11Triples = &vlib.Check{Prop: "C11", Name: "triples", Oracle: c11Oracle, Classify: c11Classify}

func init() { vlib.Register(c11Enum, c11Random, c11Triples, c11Split) }

func TestC11(t *testing.T) {
	ev := vlib.Ev("C11")
	alpha := c11Alphabet()
	depth := 2
	if vlib.Tier() == "thorough" {
		depth = 3
	}
	// the enumeration is partitioned over the shards by the first item
	t.Run("sequences", func(t *testing.T) {
		total := 0
		L, n, limit := 1, 0, len(alpha)
		next := func() *vlib.Case {
			for {
				if n >= limit {
					L++
					if L > depth {
						return nil
					}
					n, limit = 0, 1
					for i := 0; i < L; i++ {
						limit *= len(alpha)
					}
				}
				cur := n
				n++
				if cur%vlib.Shards() != vlib.Shard() {
					continue // another shard's part
				}
				items := make([]int, L)
				x := cur
				for i := L - 1; i >= 0; i-- {
					items[i] = alpha[x%len(alpha)]
					x /= len(alpha)
				}
				total++
				return c11Case(items)
			}
		}
		if c11Enum.RunEnum(t, next) {
			ev.Exhaustive(fmt.Sprintf("all sequences of <= %d items over %d symbols (37 directive forms x explicit/implicit, ')')", depth, len(alpha)), true)
		}
		ev.Extra("enumerated_sequences", total)
	})
	if vlib.Tier() != "thorough" {
		// quick: sampled triples on top of all pairs
		t.Run("random-triples", func(t *testing.T) {
			ck := *c11Random
			ck.Name = "triples"
			ck.Gen = func(rt *rapid.T) *vlib.Case {
				r := vlib.RapidRnd{T: rt}
				return c11Case([]int{vlib.Pick(r, alpha), vlib.Pick(r, alpha), vlib.Pick(r, alpha)})
			}
			ck.Run(t)
		})
	}
	t.Run("random", c11Random.Run)
	t.Run("split", c11Split.Run)
}
