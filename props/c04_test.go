package props

import (
	"bytes"
	"encoding/json"
	"fmt"
	"strings"
	"testing"
	"unicode/utf8"

	"pgregory.net/rapid"

	"verif/vlib"
)

// C04 – accepted ⇒ serialisable to well-formed JDoc Exchange.   C05 – cross references closed, names unique.

// genCandidate draws a project that has a fair chance of being accepted: corpus documents as they are, lightly mutated
// ones, directive soup and (when available) rendered models.
func genCandidate(r vlib.Rnd) *vlib.Project {
	loadSeeds()
	switch r.Intn(10) {
	case 0:
		return vlib.Pick(r, vlib.Corpus()).Project
	case 1:
		if len(seedMulti) > 0 {
			return vlib.Pick(r, seedMulti)
		}
		fallthrough
	case 2, 3:
		return vlib.SingleFile(genSoup(r, 10))
	case 4:
		if genModelDoc != nil {
			if genModelStructured != nil && vlib.Chance(r, 1, 2) {
				return genModelStructured(r) // the same, with directives moved into MACRO + PASTE and INCLUDE files
			}
			return genModelDoc(r)
		}
		fallthrough
	case 5:
		switch r.Intn(4) {
		case 0:
			return vlib.SingleFile(genAllOfFamily(r))
		case 1:
			return vlib.SingleFile(genPathFamily(r))
		case 2:
			return vlib.SingleFile(genOrFamily(r))
		}
		switch r.Intn(6) {
		case 0:
			return vlib.SingleFile(genRPCFamily(r))
		case 1:
			return vlib.SingleFile(genRegexFamily(r))
		case 2:
			return vlib.SingleFile(genBodyFamily(r))
		case 3:
			return vlib.SingleFile(genAliasFamily(r, false))
		}
		return vlib.SingleFile(genTagSoup(r))
	case 6:
		// a synthetic seed as it is or lightly mutated (shapes the repo's fixtures do not contain)
		s := []byte(vlib.Pick(r, allSynthSeeds()))
		if vlib.Chance(r, 1, 2) {
			return vlib.SingleFile(s)
		}
		return vlib.SingleFile(vlib.Mutate(r, seedSmall, s, 4000))
	default:
		in := vlib.Pick(r, seedDocs)
		return vlib.SingleFile(vlib.Mutate(r, seedSmall, in, 4000))
	}
}

// genModelDoc is installed by the model renderer (model_test.go) when present.
var genModelDoc func(r vlib.Rnd) *vlib.Project
var genModelStructured func(r vlib.Rnd) *vlib.Project

func errClass(msg string) string {
	return vlib.MsgClass(strings.NewReplacer("\"", "", "'", "").Replace(quotedRe.ReplaceAllString(msg, "_")))
}

func c04Oracle(c *vlib.Case) *vlib.Violation {
	b := vlib.Build(c.Project)
	defer b.Close()
	if !b.Out.OK() {
		return nil // rejected (or crashed: C01's business)
	}
	var js, ji []byte
	var e1, e2 error
	if sig, text, _ := vlib.Safely(func() { js, e1 = b.Api.ToJson() }); sig != "" {
		return vlib.V("c04:tojson-"+sig, "ToJson panicked: %s", text)
	}
	if sig, text, _ := vlib.Safely(func() { ji, e2 = b.Api.ToJsonIndent() }); sig != "" {
		return vlib.V("c04:tojsonindent-"+sig, "ToJsonIndent panicked: %s", text)
	}
	if e1 != nil {
		if strings.Contains(e1.Error(), "exceeded max depth") && bytes.Contains(c.Project.RootBytes(), []byte("allOf")) {
			// each schema is below the nesting limit, the inherited properties are added at the depth of the heir (A4)
			return vlib.V("c04:tojson-error:max-depth-through-allOf", "the build succeeded but ToJson fails: %v", e1)
		}
		return vlib.V("c04:tojson-error:"+errClass(e1.Error()), "the build succeeded but ToJson fails: %v", e1)
	}
	if e2 != nil {
		return vlib.V("c04:tojsonindent-error:"+errClass(e2.Error()), "the build succeeded but ToJsonIndent fails: %v", e2)
	}
	validIn := true
	for _, f := range c.Project.Files {
		if !utf8.Valid(f) {
			validIn = false
		}
	}
	if validIn && !utf8.Valid(js) {
		return vlib.V("c04:invalid-utf8", "ToJson output is not valid UTF-8 although the input is")
	}
	if !json.Valid(js) {
		return vlib.V("c04:invalid-json", "ToJson output is not valid JSON: %s", clip(js, 300))
	}
	if !json.Valid(ji) {
		return vlib.V("c04:invalid-json-indent", "ToJsonIndent output is not valid JSON")
	}
	var c1, c2 bytes.Buffer
	if err := json.Compact(&c1, js); err != nil {
		return vlib.V("c04:invalid-json", "compact: %v", err)
	}
	if err := json.Compact(&c2, ji); err != nil {
		return vlib.V("c04:invalid-json-indent", "compact: %v", err)
	}
	if !bytes.Equal(c1.Bytes(), c2.Bytes()) {
		a, _ := vlib.ParseOrdered(js)
		bb, _ := vlib.ParseOrdered(ji)
		return vlib.V("c04:tojson-vs-indent", "ToJson and ToJsonIndent differ beyond whitespace: %s", vlib.FirstDiff(a, bb, ""))
	}
	doc, err := vlib.ParseOrdered(js)
	if err != nil {
		return vlib.V("c04:invalid-json", "%v", err)
	}
	return vlib.JDocShape(doc)
}

func acceptedClassify(c *vlib.Case) (bool, []string) {
	b := vlib.Build(c.Project)
	defer b.Close()
	if !b.Out.OK() {
		return false, []string{"rejected"}
	}
	js, err := b.Api.ToJson()
	if err != nil {
		return false, []string{"accepted", "tojson-error"}
	}
	cls := []string{"accepted"}
	nt := bytes.Contains(js, []byte(`"tokenType"`))
	if nt {
		cls = append(cls, "has-schema-node")
	}
	if bytes.Contains(js, []byte(`"pathVariables"`)) {
		cls = append(cls, "has-path-variables")
	}
	if bytes.Contains(js, []byte(`"json-rpc-2.0"`)) {
		cls = append(cls, "has-json-rpc")
	}
	if bytes.Contains(js, []byte(`"notation":"regex"`)) {
		cls = append(cls, "has-regex")
	}
	if bytes.Contains(js, []byte(`"inheritedFrom"`)) {
		cls = append(cls, "has-allOf")
	}
	if len(c.Project.Files) > 1 {
		cls = append(cls, "multi-file")
	}
	return nt, cls
}

var c04Stream = &vlib.Check{
	Prop: "C04", Name: "stream", Quick: 24000, Thorough: 1600000,
	Oracle: c04Oracle, Classify: acceptedClassify,
	Gen: func(t *rapid.T) *vlib.Case { return &vlib.Case{Project: genCandidate(vlib.RapidRnd{T: t})} },
}

// c04Nesting: schemas nested as deep as the builder accepts them (and a little deeper): every level of a schema takes two
// levels of the exchange JSON, and encoding/json refuses to marshal beyond 10000 levels.
var c04Nesting = &vlib.Check{
	Prop: "C04", Name: "nesting", Quick: 16, Thorough: 240,
	Oracle: c04Oracle,
	Gen: func(t *rapid.T) *vlib.Case {
		r := vlib.RapidRnd{T: t}
		// serialising a schema near the limit costs seconds (the nested MarshalJSON calls re-read their children's output):
		// the quick tier generates moderate depths and visits the boundary through two fixed cases (TestC04)
		n := 1 + r.Intn(1500)
		if vlib.Tier() == "thorough" && vlib.Chance(r, 7, 8) {
			n = vlib.Pick(r, []int{4700 + r.Intn(200), 4899, 4900, 4901, 4950, 5000, 5100, 6000, 9000})
		}
		if vlib.Tier() == "thorough" && vlib.Chance(r, 1, 6) {
			// an object nested d2 levels deep inherits, through allOf, a property nested d1 levels deep
			d1, d2 := 1500+r.Intn(1500), 1500+r.Intn(1500)
			var sb strings.Builder
			sb.WriteString("JSIGHT 0.3\n\nTYPE @a\n{\"p\": " + strings.Repeat("[", d1) + "1" + strings.Repeat("]", d1) + "}\n\nGET /x\n  200\n")
			sb.WriteString(strings.Repeat("{\n\"a\":", d2) + "{ // {allOf: \"@a\"}\n\"q\": 1\n}" + strings.Repeat("\n}", d2) + "\n")
			return &vlib.Case{Project: vlib.SingleFile([]byte(sb.String())), Params: map[string]any{"levels": d1 + d2, "shape": "allOf-amplified"}}
		}
		doc, shape := genNestingDoc(r, n)
		return &vlib.Case{Project: vlib.SingleFile(doc), Params: map[string]any{"levels": n, "shape": shape}}
	},
	Classify: func(c *vlib.Case) (bool, []string) {
		b := vlib.Build(c.Project)
		defer b.Close()
		if !b.Out.OK() {
			return false, []string{"nesting:rejected"}
		}
		if asInt(c.Params["levels"]) >= 4000 {
			return true, []string{"nesting:accepted>=4000"}
		}
		return true, []string{"nesting:accepted<4000"}
	},
	SampleOf: func(c *vlib.Case) any {
		return map[string]any{"levels": c.Params["levels"], "shape": c.Params["shape"], "bytes": len(c.Project.RootBytes()), "head": clip(c.Project.RootBytes(), 60)}
	},
}

var c04NestingBoundary = &vlib.Check{Prop: "C04", Name: "nesting-boundary", Oracle: c04Oracle, Classify: c04Nesting.Classify, SampleOf: c04Nesting.SampleOf}

// c04Families: the grammar families on their own count, so that their coverage does not depend on their share of the stream.
var c04Families = &vlib.Check{
	Prop: "C04", Name: "families", Quick: 8000, Thorough: 400000,
	Oracle: c04Oracle, Classify: acceptedClassify,
	Gen: func(t *rapid.T) *vlib.Case {
		r := vlib.RapidRnd{T: t}
		var b []byte
		switch r.Intn(10) {
		case 0, 1, 2:
			b = genPathFamily(r)
		case 3, 4:
			b = genAllOfFamily(r)
		case 5:
			b = genOrFamily(r)
		case 6:
			b = genRPCFamily(r)
		case 7:
			b = genRegexFamily(r)
		case 8:
			b = genBodyFamily(r)
		default:
			b = genAliasFamily(r, false)
		}
		return &vlib.Case{Project: vlib.SingleFile(b)}
	},
}

var c04Corpus = &vlib.Check{Prop: "C04", Name: "corpus", Oracle: c04Oracle, Classify: acceptedClassify}

func init() {
	vlib.Register(c04Stream, c04Families, c04Corpus, c04Nesting, c04NestingBoundary, c05Stream, c05Corpus)
}

// genAllOfFamily: object types written with the rules an object literal may carry, and types inheriting from them through
// allOf (one parent or a list, chains), used by a response, a request and a Path.  Whatever the builder accepts of these
// must serialise.
func genAllOfFamily(r vlib.Rnd) []byte {
	var sb strings.Builder
	sb.WriteString("JSIGHT 0.3\n\n")
	n := 2 + r.Intn(4)
	rules := []string{"", "", "type: \"any\"", "type: \"object\"", "additionalProperties: true", "additionalProperties: \"string\"", "nullable: true", "additionalProperties: \"@t0\"", "type: \"mixed\"", "additionalProperties: \"decimal\"", "additionalProperties: \"enum\"", "additionalProperties: \"mixed\"", "additionalProperties: \"integer\"", "additionalProperties: \"any\"", "additionalProperties: false"}
	for i := 0; i < n; i++ {
		var rr []string
		if i > 0 && vlib.Chance(r, 3, 4) {
			k := 1 + r.Intn(2)
			var ps []string
			seen := map[int]bool{}
			for len(ps) < k {
				j := r.Intn(i)
				if seen[j] {
					break
				}
				seen[j] = true
				ps = append(ps, fmt.Sprintf("\"@t%d\"", j))
			}
			if len(ps) == 1 && vlib.Chance(r, 1, 2) {
				rr = append(rr, "allOf: "+ps[0])
			} else {
				rr = append(rr, "allOf: ["+strings.Join(ps, ", ")+"]")
			}
		}
		if x := vlib.Pick(r, rules); x != "" {
			rr = append(rr, x)
		}
		fmt.Fprintf(&sb, "TYPE @t%d\n  {", i)
		if len(rr) > 0 {
			fmt.Fprintf(&sb, " // {%s}", strings.Join(rr, ", "))
		}
		sb.WriteString("\n")
		var props []string
		if !vlib.Chance(r, 1, 3) {
			props = append(props, fmt.Sprintf("    \"p%d\": %s", i, vlib.Pick(r, []string{"1", "\"s\"", "[1]", "{}", fmt.Sprintf("@t%d", r.Intn(n))})))
		}
		// a property whose key is described by a user type (key shortcut), and a literal property of the same spelling
		if vlib.Chance(r, 1, 4) {
			props = append(props, "    @key : 1")
		}
		if vlib.Chance(r, 1, 4) {
			props = append(props, "    \"@key\": 2")
		}
		sb.WriteString(strings.Join(props, ",\n"))
		if len(props) > 0 {
			sb.WriteString("\n")
		}
		sb.WriteString("  }\n\n")
	}
	sb.WriteString("TYPE @key\n  \"abc\"\n\n")
	fmt.Fprintf(&sb, "POST /a/{id}\n  Request @t%d\n  200 @t%d\n  404 [@t%d]\n", r.Intn(n), n-1, r.Intn(n))
	if vlib.Chance(r, 1, 3) {
		fmt.Fprintf(&sb, "  Path\n    { // {allOf: \"@t%d\"}\n      \"id\": 1\n    }\n", r.Intn(n))
	}
	// parameters (query, request headers) that inherit from the types and add a property spelled like the key shortcut
	if vlib.Chance(r, 1, 3) {
		own := vlib.Pick(r, []string{"\"@key\": 2", "\"q\": 1", "@key : 3"})
		fmt.Fprintf(&sb, "GET /q\n  Query \"q=1\"\n    { // {allOf: \"@t%d\"}\n      %s\n    }\n  200\n    Headers\n      { // {allOf: \"@t%d\"}\n        %s\n      }\n    Body any\n", r.Intn(n), own, r.Intn(n), own)
	}
	if vlib.Chance(r, 1, 4) {
		own := vlib.Pick(r, []string{"\"@key\": 2", "\"h\": 1"})
		fmt.Fprintf(&sb, "PUT /h\n  Request\n    Headers\n      { // {allOf: \"@t%d\"}\n        %s\n      }\n    Body any\n  200 any\n", r.Intn(n), own)
	}
	return []byte(sb.String())
}

// genAliasFamily: user types whose whole value is a reference to a user type - to another alias, to themselves (the schema
// library accepts "@a // {nullable: true}" as the body of @a), in chains and mutual pairs, or to a mixed value - used in
// every position that looks through references: Headers, Query, Path (as the schema and as a property), bodies, allOf.
func genAliasFamily(r vlib.Rnd, keyShortcuts bool) []byte {
	var sb strings.Builder
	sb.WriteString("JSIGHT 0.3\n\n")
	n := 1 + r.Intn(3)
	rule := func() string {
		return vlib.Pick(r, []string{"", " // {nullable: true}", " // {nullable: true}", " // {optional: true}"})
	}
	for i := 0; i < n; i++ {
		switch r.Intn(5) {
		case 0:
			fmt.Fprintf(&sb, "TYPE @a%d\n  {\"x\": %d}\n\n", i, i)
		case 1:
			fmt.Fprintf(&sb, "TYPE @a%d\n  @a%d | @a%d%s\n\n", i, r.Intn(n), r.Intn(n), rule())
		default:
			fmt.Fprintf(&sb, "TYPE @a%d\n  @a%d%s\n\n", i, r.Intn(n), rule())
		}
	}
	t := func() string { return fmt.Sprintf("@a%d", r.Intn(n)) }
	fmt.Fprintf(&sb, "%s /x/{id}\n", vlib.Pick(r, []string{"GET", "POST"}))
	switch r.Intn(6) {
	case 0:
		fmt.Fprintf(&sb, "  Path\n    %s\n", t())
	case 1:
		fmt.Fprintf(&sb, "  Path\n    {\n      \"id\": %s\n    }\n", t())
	case 2:
		fmt.Fprintf(&sb, "  Query \"a=1\"\n    %s\n", t())
	case 3:
		fmt.Fprintf(&sb, "  Request\n    Headers\n      %s\n    Body any\n", t())
	case 4:
		fmt.Fprintf(&sb, "  Request\n    { // {allOf: \"%s\"}\n      \"own\": 1\n    }\n", t())
	}
	switch r.Intn(4) {
	case 0:
		fmt.Fprintf(&sb, "  200 %s\n", t())
	case 1:
		fmt.Fprintf(&sb, "  200 [%s]\n", t())
	case 2:
		fmt.Fprintf(&sb, "  200\n    Headers\n      %s\n    Body any\n", t())
	default:
		fmt.Fprintf(&sb, "  200\n    {\"p\": %s}\n", t())
	}
	if keyShortcuts && vlib.Chance(r, 1, 40) {
		// the alias as the type of the keys of an object (key shortcut).  Only for the isolated-worker check of C01: a
		// self-referring mixed type in this position kills the process inside the schema library (open finding A2)
		fmt.Fprintf(&sb, "  404\n    {\n      %s: 1\n    }\n", t())
	}
	return []byte(sb.String())
}

// genBodyFamily: requests and responses in every combination of {type / any / empty / regex / nothing on the keyword line}
// x {Headers child or not} x {Body child or not}, in the last position of their method or followed by another directive,
// directly or pasted from a macro.  Whatever is accepted has a body for every response and a complete request.
func genBodyFamily(r vlib.Rnd) []byte {
	var sb strings.Builder
	sb.WriteString("JSIGHT 0.3\n\nTYPE @t\n  {\"a\": 1}\n\n")
	// at most one part of the document uses a doubtful combination, so that the rest does not get the document rejected
	doubtful := 1
	part := func(kw, ind string) string {
		hdr := ind + "  Headers\n" + ind + "    {\"h\": 1}\n"
		sure := []string{
			ind + kw + " @t\n", ind + kw + " any\n", ind + kw + " [@t]\n", ind + kw + " regex\n" + ind + "  /a+/\n",
			ind + kw + "\n" + ind + "  {\"x\": 1}\n", ind + kw + "\n" + hdr + ind + "  Body any\n", ind + kw + "\n" + ind + "  Body @t\n",
			ind + kw + "\n" + ind + "  Body\n" + ind + "    [1]\n" + hdr,
		}
		doubt := []string{
			ind + kw + "\n" + hdr,                      // headers only
			ind + kw + " empty\n" + hdr,                // empty + headers
			ind + kw + " empty\n",                      // empty
			ind + kw + " @t\n" + hdr,                   // type on the keyword line + headers
			ind + kw + " any\n" + ind + "  Body any\n", // two bodies
			ind + kw + "\n" + ind + "  Body empty\n",
		}
		if doubtful > 0 && vlib.Chance(r, 1, 3) {
			doubtful--
			return vlib.Pick(r, doubt)
		}
		return vlib.Pick(r, sure)
	}
	nm := 1 + r.Intn(3)
	macro := ""
	for m := 0; m < nm; m++ {
		fmt.Fprintf(&sb, "%s /m%d\n", vlib.Pick(r, []string{"GET", "POST", "PUT"}), m)
		if vlib.Chance(r, 1, 2) {
			sb.WriteString(part("Request", "  "))
		}
		codes := []string{"200", "201", "404", "500"}
		for i := 0; i < 1+r.Intn(3); i++ {
			if macro == "" && vlib.Chance(r, 1, 5) {
				macro = part(codes[i], "  ")
				sb.WriteString("  PASTE @resp\n")
				continue
			}
			sb.WriteString(part(codes[i], "  "))
		}
		sb.WriteString("\n")
	}
	if macro != "" {
		sb.WriteString("MACRO @resp\n(\n" + macro + ")\n")
	}
	return []byte(sb.String())
}

// genRegexFamily: regex user types and inline regex bodies over ordinary and hostile patterns: matches of length zero,
// patterns that match nothing at all (an empty character class), huge repetitions, unicode classes, invalid patterns.
// The types are used from a jsight type, a response, an array body and a Path.
var regexFamilyPatterns = []string{
	`/a+/`, `/[a-z]{2,5}/`, `/\d{3}-\d{4}/`, `/(cat|dog)s?/`, `/a*/`, `/(ab)?/`, `/.*/`, `/\b/`, `/^$/`, `//`,
	`/[^\x00-\x{10FFFF}]/`, `/[^\s\S]/`, `/a{0}/`, `/(?i)abc/`, `/\p{Greek}+/`, `/[[:alpha:]]+/`, `/a{2,1}/`, `/(/`, `/[a-/`,
	`/x{1000}/`, `/.{0,3}$^/`, `/\z\A/`, `/[^\x00-\x{10FFFF}]?a/`, `/\//`, `/a|/`, `/(?:)/`, `/\x{10FFFF}/`, `/é+/`,
}

func genRegexFamily(r vlib.Rnd) []byte {
	var sb strings.Builder
	sb.WriteString("JSIGHT 0.3\n\n")
	n := 1 + r.Intn(3)
	for i := 0; i < n; i++ {
		fmt.Fprintf(&sb, "TYPE @r%d regex\n  %s\n\n", i, vlib.Pick(r, regexFamilyPatterns))
	}
	if vlib.Chance(r, 1, 2) {
		fmt.Fprintf(&sb, "TYPE @o\n  {\n    \"a\": @r%d,\n    \"b\": [@r%d]\n  }\n\n", r.Intn(n), r.Intn(n))
	}
	fmt.Fprintf(&sb, "GET /x/{id}\n")
	if vlib.Chance(r, 1, 3) {
		fmt.Fprintf(&sb, "  Path\n    {\n      \"id\": @r%d\n    }\n", r.Intn(n))
	}
	switch r.Intn(4) {
	case 0:
		fmt.Fprintf(&sb, "  200 @r%d\n", r.Intn(n))
	case 1:
		fmt.Fprintf(&sb, "  200 [@r%d]\n", r.Intn(n))
	case 2:
		fmt.Fprintf(&sb, "  200 regex\n    %s\n", vlib.Pick(r, regexFamilyPatterns))
	default:
		fmt.Fprintf(&sb, "  200 any\n")
	}
	if vlib.Chance(r, 1, 3) {
		fmt.Fprintf(&sb, "POST /y\n  Request regex\n    %s\n  201 any\n", vlib.Pick(r, regexFamilyPatterns))
	}
	return []byte(sb.String())
}

// genRPCFamily: JSON-RPC URLs and HTTP methods whose (quoted) paths and method names are drawn from a few words and may
// contain blanks: the catalog identifies an interaction by the text "<protocol> <method> <path>".
func genRPCFamily(r vlib.Rnd) []byte {
	var sb strings.Builder
	sb.WriteString("JSIGHT 0.3\n\n")
	paths := []string{"/c", "/b /c", "/a /b /c", "/b", "/a", "/c d"}
	names := []string{"a", "a /b", "a /a", "x", "a /a /b", "x y"}
	used := map[string]bool{}
	n := 2 + r.Intn(3)
	for i := 0; i < n; i++ {
		p := vlib.Pick(r, paths)
		if used[p] {
			continue
		}
		used[p] = true
		if vlib.Chance(r, 1, 4) {
			fmt.Fprintf(&sb, "%s \"%s\"\n  200 any\n\n", vlib.Pick(r, []string{"GET", "POST"}), p)
			continue
		}
		fmt.Fprintf(&sb, "URL \"%s\"\n  Protocol json-rpc-2.0\n", p)
		um := map[string]bool{}
		for k := 0; k < 1+r.Intn(2); k++ {
			m := vlib.Pick(r, names)
			if um[m] {
				continue
			}
			um[m] = true
			fmt.Fprintf(&sb, "  Method \"%s\"\n    Params\n      {}\n", m)
		}
		sb.WriteString("\n")
	}
	return []byte(sb.String())
}

// genOrFamily: one to three types whose values carry an "or" rule over scalar type names, type references (to themselves,
// to each other, to undefined names) and inline {type: ...} alternatives, used by a response.  Most of these are rejected;
// accepted or rejected, the outcome has to be the same every time (C06) and serialisable when accepted (C04).
func genOrFamily(r vlib.Rnd) []byte {
	var sb strings.Builder
	sb.WriteString("JSIGHT 0.3\n\n")
	n := 1 + r.Intn(3)
	alt := func() string {
		t := fmt.Sprintf("@o%d", r.Intn(n+1)) // n = an undefined name, rarely
		if vlib.Chance(r, 3, 4) {
			t = fmt.Sprintf("@o%d", r.Intn(n))
		}
		switch r.Intn(8) {
		case 0:
			return "\"integer\""
		case 1:
			return "\"string\""
		case 2:
			return "{type: \"integer\"}"
		case 3:
			return "{type: \"string\", minLength: 1}"
		case 4:
			return "{type: \"" + t + "\"}"
		case 5:
			return "\"boolean\""
		default:
			return "\"" + t + "\""
		}
	}
	for i := 0; i < n; i++ {
		k := 2 + r.Intn(2)
		var aa []string
		for j := 0; j < k; j++ {
			aa = append(aa, alt())
		}
		val := vlib.Pick(r, []string{"1", "\"s\"", "true", "1", fmt.Sprintf("@o%d", r.Intn(n))})
		switch r.Intn(4) {
		case 0:
			fmt.Fprintf(&sb, "TYPE @o%d\n  {\n    \"p\": %s // {or: [%s]}\n  }\n\n", i, val, strings.Join(aa, ", "))
		case 1:
			fmt.Fprintf(&sb, "TYPE @o%d\n  [ // {optional: true}\n    %s // {or: [%s]}\n  ]\n\n", i, val, strings.Join(aa, ", "))
		default:
			fmt.Fprintf(&sb, "TYPE @o%d\n  %s // {or: [%s]}\n\n", i, val, strings.Join(aa, ", "))
		}
	}
	fmt.Fprintf(&sb, "GET /o\n  200 @o%d\n", r.Intn(n))
	if vlib.Chance(r, 1, 3) {
		fmt.Fprintf(&sb, "  404\n    1 // {or: [%s, %s]}\n", alt(), alt())
	}
	return []byte(sb.String())
}

// genPathFamily: paths with 1-3 variables and Path directives (URL level, method level) describing any subset of them,
// with property schemas that are fine, that contradict their own rules, or that refer to types of every notation.  Path
// schemas are compiled late; whatever is accepted must serialise.
func genPathFamily(r vlib.Rnd) []byte {
	var sb strings.Builder
	sb.WriteString("JSIGHT 0.3\n\nTYPE @int\n  1 // {min: 0}\n\nTYPE @re regex\n  /[a-z]+/\n\nTYPE @obj\n  {\"k\": 1}\n\nENUM @e\n  [\"a\", \"b\"]\n\n")
	vals := []string{"1", "\"s\"", "1 // {min: 0}", "1 // {min: 5}", "\"abc\" // {maxLength: 2}", "\"a\" // {enum: @e}", "\"z\" // {enum: @e}", "@int", "@re", "@obj", "@nope", "@int | @re",
		"12.5 // {type: \"decimal\", precision: 1}", "1 // {type: \"string\"}", "\"x\" // {regex: \"^[0-9]+$\"}", "null", "true", "1 // {optional: true}", "\"2020-01-01\" // {type: \"date\"}", "\"nodate\" // {type: \"date\"}",
		"\"a@b.cc\" // {type: \"email\"}", "1 // {type: \"any\"}", "1 // {or: [\"@int\", \"@re\"]}", "1 // {type: \"@int\"}", "1 // {min: 0, exclusiveMinimum: true}",
		"\"550e8400-e29b-41d4-a716-446655440000\" // {type: \"uuid\"}", "\"http://a.b\" // {type: \"uri\"}"}
	nv := 1 + r.Intn(3)
	names := []string{"a", "b", "c"}[:nv]
	path := ""
	for _, n := range names {
		if vlib.Chance(r, 1, 3) {
			path += "/s" + n
		}
		switch r.Intn(10) {
		case 8:
			path += "/{" + n + "}x}" // a whole segment in braces with another brace inside
		case 9:
			path += "/{{" + n + "}}"
		case 0:
			path += "/{" + n + "}.json" // braces inside a segment: not a JSight path parameter
		case 1:
			path += "/v{" + n + "}"
		default:
			path += "/{" + n + "}"
		}
	}
	extra := []string{}
	var typeDefs []*strings.Builder // user types that Path bodies refer to, written at the end of the document
	pathDir := func(ind string) {
		var props []string
		for _, n := range append(append([]string(nil), names...), extra...) {
			if vlib.Chance(r, 1, 2) {
				props = append(props, fmt.Sprintf("%s    \"%s\": %s", ind, n, vlib.Pick(r, vals)))
			}
		}
		if len(props) == 0 {
			return
		}
		// a quarter of the Path bodies take their properties from a user type: by reference or through allOf
		open, close := ind+"  {\n", ind+"  }\n"
		if vlib.Chance(r, 1, 6) {
			// a rule on the root object of the Path body
			open = ind + "  { // {" + vlib.Pick(r, []string{"type: \"\"", "type: \"object\"", "type: \"any\"", "nullable: true", "additionalProperties: true", "type: \"@int\"", "type: \"@obj\"", "minItems: 1", "or: [\"@obj\", \"@int\"]"}) + "}\n"
		}
		target := &sb
		switch r.Intn(8) {
		case 0:
			name := fmt.Sprintf("@pt%d", len(typeDefs))
			sb.WriteString(ind + "Path\n" + ind + "  " + name + "\n")
			typeDefs = append(typeDefs, &strings.Builder{})
			target = typeDefs[len(typeDefs)-1]
			open, close = "\nTYPE "+name+"\n"+ind+"  {\n", ind+"  }\n"
		case 1:
			name := fmt.Sprintf("@pt%d", len(typeDefs))
			sb.WriteString(ind + "Path\n" + ind + "  { // {allOf: \"" + name + "\"}\n" + ind + "  }\n")
			typeDefs = append(typeDefs, &strings.Builder{})
			target = typeDefs[len(typeDefs)-1]
			open, close = "\nTYPE "+name+"\n"+ind+"  {\n", ind+"  }\n"
		default:
			sb.WriteString(ind + "Path\n")
		}
		sb := target
		sb.WriteString(open)
		defer func() { sb.WriteString(close) }()
		for i, p := range props {
			// the comma of a property line goes before its rule comment
			if i < len(props)-1 {
				if k := strings.Index(p, " //"); k >= 0 {
					p = p[:k] + "," + p[k:]
				} else {
					p += ","
				}
			}
			sb.WriteString(p + "\n")
		}
	}
	// a third of the documents reach their URL / methods by pasting a root-level macro
	viaMacro := vlib.Chance(r, 1, 3)
	if viaMacro {
		if vlib.Chance(r, 1, 2) {
			sb.WriteString("PASTE @paths\n\nGET /other/{z}\n  200 any\n\nMACRO @paths\n(\n")
		} else {
			sb.WriteString("MACRO @paths\n(\n")
		}
	}
	if vlib.Chance(r, 1, 2) {
		sb.WriteString("URL " + path + "\n")
		if vlib.Chance(r, 1, 2) {
			pathDir("  ")
		}
		for _, m := range []string{"GET", "PUT"}[:1+r.Intn(2)] {
			sb.WriteString("  " + m + "\n")
			if vlib.Chance(r, 1, 2) {
				pathDir("    ")
			}
			sb.WriteString("    200 any\n")
		}
		if vlib.Chance(r, 1, 2) {
			// a deeper stand-alone method after the URL group, with its own Path (it may describe the new variable only,
			// or repeat - legally or not - what the URL's Path said)
			extra = []string{"d"}
			sb.WriteString("GET " + path + "/more/{d}\n")
			pathDir("  ")
			sb.WriteString("  200 any\n")
			extra = nil
		}
	} else {
		sb.WriteString("GET " + path + "\n")
		pathDir("  ")
		sb.WriteString("  200 any\n")
		if vlib.Chance(r, 1, 2) {
			extra = []string{"d"}
			sb.WriteString("POST " + path + "/more/{d}\n")
			pathDir("  ")
			sb.WriteString("  200 any\n")
			extra = nil
		}
	}
	if viaMacro {
		sb.WriteString(")\n")
		if !strings.Contains(sb.String(), "PASTE @paths") {
			sb.WriteString("\nPASTE @paths\n")
		}
	}
	for _, td := range typeDefs {
		sb.WriteString(td.String())
	}
	return []byte(sb.String())
}

func allSynthSeeds() []string {
	var out []string
	out = append(out, synthSeeds...)
	out = append(out, oasSeeds...)
	out = append(out, c16Seeds...)
	return out
}

// corpusEnum enumerates the repo's testdata and the harness's own synthetic seeds.
func corpusEnum() func() *vlib.Case {
	i := 0
	cc := vlib.Corpus()
	extra := allSynthSeeds()
	return func() *vlib.Case {
		if i < len(cc) {
			i++
			return &vlib.Case{Project: cc[i-1].Project, Note: cc[i-1].Path}
		}
		if j := i - len(cc); j < len(extra) {
			i++
			return &vlib.Case{Project: vlib.SingleFile([]byte(extra[j])), Note: "synthetic seed"}
		}
		return nil
	}
}

func TestC04(t *testing.T) {
	if vlib.Shard() == 0 {
		t.Run("corpus", func(t *testing.T) { c04Corpus.RunEnum(t, corpusEnum()) })
	}
	t.Run("stream", c04Stream.Run)
	t.Run("families", c04Families.Run)
	t.Run("nesting", c04Nesting.Run)
	if vlib.Shard() == 0 {
		t.Run("nesting-boundary", func(t *testing.T) {
			// the deepest accepted schema must serialise; one level more is refused (or, accepted, must serialise too)
			levels := []int{4900, 5000}
			i := 0
			c04NestingBoundary.RunEnum(t, func() *vlib.Case {
				if i >= len(levels) {
					return nil
				}
				n := levels[i]
				i++
				doc := "JSIGHT 0.3\n\nGET /a\n  200\n    " + strings.Repeat("[", n) + "1" + strings.Repeat("]", n) + "\n"
				return &vlib.Case{Project: vlib.SingleFile([]byte(doc)), Params: map[string]any{"levels": n, "shape": "arrays"}}
			})
		})
	}
}

// ---- C05 ---------------------------------------------------------------------------------------------------------

func c05Oracle(c *vlib.Case) *vlib.Violation {
	for _, f := range c.Project.Files {
		if !utf8.Valid(f) {
			return nil // the property is stated for valid UTF-8 input
		}
	}
	b := vlib.Build(c.Project)
	defer b.Close()
	if !b.Out.OK() {
		return nil
	}
	js, err := b.Api.ToJson()
	if err != nil {
		return nil // C04's business
	}
	doc, err := vlib.ParseOrdered(js)
	if err != nil {
		return nil // C04's business
	}
	// names are unique: no section lists a name twice
	for _, sec := range []string{"interactions", "tags", "userTypes", "userEnums", "servers"} {
		if s := doc.Get(sec); s != nil && s.IsObj() {
			seen := map[string]bool{}
			for _, k := range s.Keys {
				if seen[k] {
					return vlib.V("c05:refs:duplicate-name:"+sec, "section %s has two entries named %q", sec, k)
				}
				seen[k] = true
			}
		}
	}
	// every response has a body (stated by this property; the shape check of C04 would report it as a missing field)
	if ii := doc.Get("interactions"); ii != nil && ii.IsObj() {
		for i, it := range ii.Vals {
			if rs := it.Get("responses"); rs != nil && rs.IsArr() {
				for _, resp := range rs.Vals {
					if b := resp.Get("body"); resp.IsObj() && (b == nil || !b.IsObj()) {
						return vlib.V("c05:refs:response-without-body", "interaction %q: response %s has no body", ii.Keys[i], resp.S("code"))
					}
				}
			}
		}
	}
	if vlib.JDocShape(doc) != nil {
		return nil // C04's business
	}
	return vlib.JDocRefs(doc)
}

func c05Classify(c *vlib.Case) (bool, []string) {
	b := vlib.Build(c.Project)
	defer b.Close()
	if !b.Out.OK() {
		return false, []string{"rejected"}
	}
	js, err := b.Api.ToJson()
	if err != nil {
		return false, []string{"accepted", "tojson-error"}
	}
	doc, err := vlib.ParseOrdered(js)
	if err != nil {
		return false, []string{"accepted"}
	}
	cls := []string{"accepted"}
	nt := false
	ii := doc.Get("interactions")
	if ii != nil {
		if len(ii.Keys) > 0 {
			cls = append(cls, "has-interaction")
		}
		for _, it := range ii.Vals {
			if len(vlib.PathParams(it.S("path"))) > 0 {
				nt = true
				cls = append(cls, "path-parameter")
				break
			}
		}
	}
	src := string(c.Project.RootBytes())
	if strings.Contains(src, "Tags") || strings.Contains(src, "TAG") {
		cls = append(cls, "explicit-tag")
		if ii != nil && len(ii.Keys) > 0 {
			nt = true
		}
	}
	return nt, cls
}

var c05Stream = &vlib.Check{
	Prop: "C05", Name: "stream", Quick: 24000, Thorough: 1600000,
	Oracle: c05Oracle, Classify: c05Classify,
	Gen: func(t *rapid.T) *vlib.Case {
		r := vlib.RapidRnd{T: t}
		if vlib.Chance(r, 1, 3) {
			return &vlib.Case{Project: vlib.SingleFile(genTagSoup(r))}
		}
		return &vlib.Case{Project: genCandidate(r)}
	},
}

var c05Corpus = &vlib.Check{Prop: "C05", Name: "corpus", Oracle: c05Oracle, Classify: c05Classify}

// genTagSoup: small valid-looking documents rich in TAG/Tags, URL grouping, shared path prefixes and both protocols.
func genTagSoup(r vlib.Rnd) []byte {
	var sb strings.Builder
	sb.WriteString("JSIGHT 0.3\n")
	tags := []string{"@t1", "@t2", "@a_b", "@t3"}
	nt := r.Intn(4)
	for i := 0; i < nt; i++ {
		sb.WriteString("TAG " + tags[i])
		if vlib.Chance(r, 1, 3) {
			sb.WriteString(" // tag note")
		}
		sb.WriteString("\n")
		if vlib.Chance(r, 1, 3) {
			sb.WriteString("  Description\n    about the tag\n")
		}
	}
	paths := []string{"/a", "/a/{id}", "/a/{id}/b", "/a/{id}/b/{x}", "/c_d/{p}", "/rpc", "/", "/a/b", "/{z}", "/s/{id}/t/{ID}", "/s/{Id}/{iD}/{k}", "/a.b/{p}/{q}/{r}/{s}"}
	verbs := []string{"GET", "POST", "PUT", "PATCH", "DELETE"}
	nr := 1 + r.Intn(4)
	used := map[string]bool{}
	for i := 0; i < nr; i++ {
		p := vlib.Pick(r, paths)
		tagLine := func(ind string) {
			if vlib.Chance(r, 1, 2) {
				k := 1 + r.Intn(4)
				sb.WriteString(ind + "Tags")
				for j := 0; j < k; j++ {
					sb.WriteString(" " + vlib.Pick(r, tags))
				}
				sb.WriteString("\n")
				if vlib.Chance(r, 1, 4) {
					// a second Tags directive of the same method / URL (it is validated, only the first one counts)
					sb.WriteString(ind + "Tags " + vlib.Pick(r, tags) + " " + vlib.Pick(r, tags) + "\n")
				}
			}
		}
		switch r.Intn(3) {
		case 0: // stand-alone method
			v := vlib.Pick(r, verbs)
			if used[v+p] {
				continue
			}
			used[v+p] = true
			sb.WriteString(v + " " + p + "\n")
			tagLine("  ")
			if vlib.Chance(r, 1, 3) {
				sb.WriteString("  " + vlib.Pick(r, []string{"Request\n    {\"a\": 1}", "Request any", "Request\n    Headers\n      {\"h\": 1}\n    Body\n      [1]"}) + "\n")
			}
			sb.WriteString("  " + vlib.Pick(r, []string{"200 any", "200 any\n  404 empty", "599\n    Body any", "100 any", "201", "200 any\n  404", "200\n    {\"ok\": true}\n  500\n    Headers\n      {\"h\": 1}"}) + "\n")
			if pp := vlib.PathParams(p); len(pp) > 0 && vlib.Chance(r, 1, 2) {
				// a Path that describes a subset of the parameters, sometimes with a rule the example violates
				q := pp[r.Intn(len(pp))]
				sb.WriteString("  Path\n    {\n      \"" + q + "\": " + vlib.Pick(r, []string{"1", "\"x\"", "1 // {min: 5}", "\"ab\" // {maxLength: 1}", "2 // {type: \"integer\"}", "@t1"}) + "\n    }\n")
			}
		case 1: // URL group
			if used["URL"+p] {
				continue
			}
			used["URL"+p] = true
			sb.WriteString("URL " + p + "\n")
			tagLine("  ")
			k := 1 + r.Intn(3)
			for j := 0; j < k; j++ {
				v := verbs[(j+r.Intn(2))%len(verbs)]
				if used[v+p] {
					continue
				}
				used[v+p] = true
				sb.WriteString("  " + v + "\n")
				tagLine("    ")
				sb.WriteString("    200 any\n")
			}
			if strings.Contains(p, "{") && vlib.Chance(r, 1, 2) {
				pp := vlib.PathParams(p)
				sb.WriteString("  Path\n    {\"" + pp[len(pp)-1] + "\": 1}\n")
			}
		case 2: // json-rpc
			if used["URL"+p] {
				continue
			}
			used["URL"+p] = true
			sb.WriteString("URL " + p + "\n  Protocol json-rpc-2.0\n")
			tagLine("  ")
			k := 1 + r.Intn(2)
			for j := 0; j < k; j++ {
				sb.WriteString("  Method m" + string(rune('a'+j)) + "\n")
				tagLine("    ")
				sb.WriteString("    Params\n      {}\n")
			}
		}
	}
	return []byte(sb.String())
}

func TestC05(t *testing.T) {
	if vlib.Shard() == 0 {
		t.Run("corpus", func(t *testing.T) { c05Corpus.RunEnum(t, corpusEnum()) })
	}
	t.Run("stream", c05Stream.Run)
}
