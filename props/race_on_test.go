//go:build race

package props

const raceEnabled = true
