package props

import (
	"bytes"
	"encoding/json"
	"strings"
	"sync"
	"testing"

	"pgregory.net/rapid"

	"verif/vlib"
)

// C17 – OpenAPI export is sound: an error or a structurally valid document, never a panic.

func c17Oracle(c *vlib.Case) *vlib.Violation {
	b := vlib.Build(c.Project)
	defer b.Close()
	if !b.Out.OK() {
		return nil
	}
	var oj []byte
	var oerr error
	if sig, text, st := vlib.Safely(func() { oj, oerr = b.Api.ToOpenAPIJson() }); sig != "" {
		return vlib.V("c17:"+sig, "ToOpenAPIJson panicked: %s\n%s", text, firstLines(st, 40))
	}
	if oerr != nil {
		return nil // an error value is allowed
	}
	if !json.Valid(oj) {
		return vlib.V("c17:invalid-json", "ToOpenAPIJson returned invalid JSON")
	}
	cj, err := b.Api.ToJson()
	if err != nil {
		return nil // C04's business
	}
	oas, err := vlib.ParseOrdered(oj)
	if err != nil {
		return vlib.V("c17:invalid-json", "%v", err)
	}
	cat, err := vlib.ParseOrdered(cj)
	if err != nil || !cat.Get("interactions").IsObj() {
		return nil
	}
	if v := vlib.OASCheck(oas, cat); v != nil {
		return v
	}
	// the indented form must be the same document
	var oi []byte
	if sig, text, _ := vlib.Safely(func() { oi, oerr = b.Api.ToOpenAPIJsonIndent() }); sig != "" {
		return vlib.V("c17:indent-"+sig, "ToOpenAPIJsonIndent panicked: %s", text)
	}
	if oerr != nil {
		return vlib.V("c17:indent-error", "ToOpenAPIJson succeeded but ToOpenAPIJsonIndent fails: %v", oerr)
	}
	var c1, c2 bytes.Buffer
	_ = json.Compact(&c1, oj)
	if err := json.Compact(&c2, oi); err != nil {
		return vlib.V("c17:indent-invalid-json", "%v", err)
	}
	if !bytes.Equal(c1.Bytes(), c2.Bytes()) {
		a, _ := vlib.ParseOrdered(oi)
		return vlib.V("c17:indent-differs", "ToOpenAPIJson and ToOpenAPIJsonIndent differ: %s", vlib.FirstDiff(oas, a, ""))
	}
	return nil
}

func c17Classify(c *vlib.Case) (bool, []string) {
	b := vlib.Build(c.Project)
	defer b.Close()
	if !b.Out.OK() {
		return false, []string{"rejected"}
	}
	var oj []byte
	var oerr error
	if sig, _, _ := vlib.Safely(func() { oj, oerr = b.Api.ToOpenAPIJson() }); sig != "" {
		return true, []string{"accepted", "export-panic"}
	}
	if oerr != nil {
		return false, []string{"accepted", "export-error"}
	}
	cls := []string{"accepted", "exported"}
	nt := false
	if bytes.Contains(oj, []byte(`"$ref"`)) {
		nt = true
		cls = append(cls, "has-ref")
	}
	if bytes.Contains(oj, []byte(`"in":"path"`)) {
		nt = true
		cls = append(cls, "has-path-parameter")
	}
	src := string(c.Project.RootBytes())
	for _, k := range []string{"regex", "empty", "any", "allOf", "Headers", " | "} {
		if strings.Contains(src, k) {
			cls = append(cls, "src-"+strings.TrimSpace(k))
		}
	}
	return nt, cls
}

var oasSeeds = []string{
	"JSIGHT 0.3\nGET /shelves/{id}/books/{ID}\n  200 any\nDELETE /shelves/{id}/books/{ID}\n  204 empty\nURL /s/{Id}/{iD}\n  Path\n    {\"iD\": 1}\n  GET\n    200 any\n",
	"JSIGHT 0.3\nGET /a\n  200\n    {\"a\": 1}\n  200 empty\n  200 any\n  404 // nf\n    {\"e\": 1} // the error\n  404 any\n",
	"JSIGHT 0.3\nTYPE @a empty\nGET /a\n  200 @a\n",
	"JSIGHT 0.3\nTYPE @a any\nGET /a\n  200 @a\n",
	"JSIGHT 0.3\nTYPE @r regex\n  /ab+/\nGET /a/{id}\n  Path\n    {\"id\": @r}\n  200 [@r]\n",
	"JSIGHT 0.3\nGET /a\n  200 regex\n    /[a-/\n",
	"JSIGHT 0.3\nGET /a\n  Query\n    {\"a\": 1}\n  200 any\n  200 empty\n  404\n    Headers\n      {\"h\": \"v\"}\n    Body\n      {\"e\": @e}\nTYPE @e\n  1 // {or: [\"integer\", \"string\"]}\n",
	"JSIGHT 0.3\nTYPE @b\n  {\"x\": 1}\nTYPE @c\n  { // {allOf: \"@b\"}\n    \"y\": @b | @c // {optional: true}\n  }\nPOST /c/{p}/{q}\n  Request @c\n  100 any\n  599 @c\n",
	"JSIGHT 0.3\nENUM @en\n  [1, \"a\"]\nTYPE @t\n  {\"k\": 1 // {enum: @en}\n  }\nPUT /t\n  Request\n    Headers\n      {\"h\": 1}\n    Body @t\n  200 [@t]\n",
}

var (
	acceptedOnce sync.Once
	acceptedPool []*vlib.Project
)

// acceptedProjects: corpus entries and synthetic seeds that build successfully on the current tree.
func acceptedProjects() []*vlib.Project {
	acceptedOnce.Do(func() {
		try := func(p *vlib.Project) {
			b := vlib.Build(p)
			if b.Out.OK() {
				acceptedPool = append(acceptedPool, p)
			}
			b.Close()
		}
		for _, e := range vlib.Corpus() {
			try(e.Project)
		}
		for _, s := range synthSeeds {
			try(vlib.SingleFile([]byte(s)))
		}
		for _, s := range oasSeeds {
			try(vlib.SingleFile([]byte(s)))
		}
	})
	return acceptedPool
}

// genAccepted draws a project that is accepted or close to one.
func genAccepted(r vlib.Rnd) *vlib.Project {
	pool := acceptedProjects()
	switch r.Intn(6) {
	case 0, 1:
		return vlib.Pick(r, pool)
	case 2:
		return vlib.SingleFile([]byte(vlib.Pick(r, oasSeeds)))
	case 3:
		return genCandidate(r)
	default:
		p := vlib.Pick(r, pool)
		if len(p.Files) > 1 {
			return p
		}
		loadSeeds()
		return vlib.SingleFile(vlib.Mutate(r, seedSmall, p.RootBytes(), 4000))
	}
}

var c17Stream = &vlib.Check{
	Prop: "C17", Name: "stream", Quick: 20000, Thorough: 1400000,
	Oracle: c17Oracle, Classify: c17Classify,
	Gen: func(t *rapid.T) *vlib.Case { return &vlib.Case{Project: genAccepted(vlib.RapidRnd{T: t})} },
}

var c17Corpus = &vlib.Check{Prop: "C17", Name: "corpus", Oracle: c17Oracle, Classify: c17Classify}

func init() { vlib.Register(c17Stream, c17Corpus) }

func TestC17(t *testing.T) {
	if vlib.Shard() == 0 {
		t.Run("corpus", func(t *testing.T) {
			next := corpusEnum()
			i := 0
			c17Corpus.RunEnum(t, func() *vlib.Case {
				if c := next(); c != nil {
					return c
				}
				if i < len(oasSeeds) {
					i++
					return &vlib.Case{Project: vlib.SingleFile([]byte(oasSeeds[i-1]))}
				}
				return nil
			})
		})
	}
	t.Run("stream", c17Stream.Run)
}
