package props

import (
	"fmt"
	"strings"
	"testing"

	"pgregory.net/rapid"

	"verif/mdl"
	"verif/vlib"
)

// C10 – PASTE is transparent; MACRO definitions contribute nothing; cyclic and undefined macros are errors.

var c10Model = &vlib.Check{
	Prop: "C10", Name: "model-macroize", Quick: 3000, Thorough: 320000,
	Oracle: sameCatalogOracle("c10", "macro"),
	Gen: func(t *rapid.T) *vlib.Case {
		r := vlib.RapidRnd{T: t}
		doc := mdl.Gen(r)
		tree := mdl.BuildTree(doc, mdl.TreeOpts{R: r})
		lay := mdl.RandomLayout(r)
		base := mdl.Render(tree, lay)
		mt, macros, depth, ragged := mdl.MacroizeRagged(r, tree, 1+r.Intn(4), true)
		if macros == 0 {
			return nil
		}
		mr := mdl.Render(mt, lay)
		return &vlib.Case{Project: renderedProject(base), Project2: renderedProject(mr), Params: map[string]any{"macros": macros, "depth": depth, "ragged": ragged}}
	},
	Classify: func(c *vlib.Case) (bool, []string) {
		m := asInt(c.Params["macros"])
		d := asInt(c.Params["depth"])
		cls := []string{fmt.Sprintf("macros-%d", m), fmt.Sprintf("nesting-%d", d)}
		src := string(c.Project2.RootBytes())
		reused := false
		for i := 1; i <= m; i++ {
			if strings.Count(src, fmt.Sprintf("PASTE @m%d", i)) >= 2 {
				reused = true
			}
		}
		if reused {
			cls = append(cls, "macro-reused")
		}
		if asInt(c.Params["ragged"]) > 0 {
			cls = append(cls, "ragged-macro") // the body ends with an open directive, its other children follow the PASTE
		}
		return m >= 2 || d >= 2 || reused || asInt(c.Params["ragged"]) > 0, cls
	},
}

func asInt(x any) int {
	switch n := x.(type) {
	case int:
		return n
	case float64:
		return int(n)
	}
	return 0
}

// c10Unused: adding never-pasted MACRO definitions (copies of runs of the document, and arbitrary legal bodies) to a
// document leaves the catalog unchanged.
var c10Unused = &vlib.Check{
	Prop: "C10", Name: "unused-definitions", Quick: 1500, Thorough: 160000,
	Oracle: sameCatalogOracle("c10", "with-unused-macros"),
	Gen: func(t *rapid.T) *vlib.Case {
		r := vlib.RapidRnd{T: t}
		doc := mdl.Gen(r)
		tree := mdl.BuildTree(doc, mdl.TreeOpts{R: r})
		lay := mdl.RandomLayout(r)
		base := mdl.Render(tree, lay)
		// macroize, then drop every PASTE: what remains are definitions that are never used, plus the document minus the runs;
		// instead we keep the document intact and add the definitions of a macroized copy under fresh names
		mt, macros, _ := mdl.Macroize(r, tree, 1+r.Intn(3))
		if macros == 0 {
			return nil
		}
		with := mdl.CloneTree(tree)
		id := 300000
		for _, d := range mt {
			if d.Kw == "MACRO" {
				def := mdl.CloneTree([]*mdl.Dir{d})[0]
				def.Params = []mdl.Param{{Text: "@unused" + strings.TrimPrefix(d.Params[0].Text, "@m"), NoQuote: true}}
				// nested PASTEs inside refer to macros that do not exist in this document: a never-pasted macro is not expanded
				mdl.Walk([]*mdl.Dir{def}, func(x *mdl.Dir, _ *mdl.Dir) { id++; x.ID = id })
				at := 1 + r.Intn(len(with))
				nl := append([]*mdl.Dir(nil), with[:at]...)
				nl = append(nl, def)
				with = append(nl, with[at:]...)
			}
		}
		wr := mdl.Render(with, lay)
		return &vlib.Case{Project: renderedProject(base), Project2: renderedProject(wr), Params: map[string]any{"macros": macros}}
	},
	Classify: func(c *vlib.Case) (bool, []string) {
		m := asInt(c.Params["macros"])
		return m >= 1, []string{fmt.Sprintf("unused-%d", m)}
	},
}

// c10Graph: MACRO/PASTE call graphs with cycles of any length and undefined names must be rejected with the right error
// (evaluated in the isolated worker: an undetected cycle is a fatal stack overflow).
func c10GraphInner(c *vlib.Case) (*vlib.Violation, string) {
	b := vlib.Build(c.Project)
	defer b.Close()
	o := b.Out
	anyCycle := c.Params["any_cycle"] == true
	undefReach := c.Params["undefined"] == true
	switch {
	case o.Kind == "panic":
		return vlib.V("c10:graph:"+o.Sig, "macro graph build panicked: %s", o.Panic), ""
	case anyCycle:
		if o.OK() {
			return vlib.V("c10:cycle-accepted", "a macro reaches itself through PASTE (cycle length %v) but the document is accepted", c.Params["cycle_len"]), ""
		}
		if !strings.HasPrefix(o.Msg, "file dependency recursion is detected") && !(undefReach && o.Msg == "macro not found") {
			return vlib.V("c10:cycle-other-error", "cyclic macro graph: %s", o.Brief()), ""
		}
	case undefReach:
		if o.OK() {
			return vlib.V("c10:undefined-macro-accepted", "a PASTE of an undefined macro is reachable but the document is accepted"), ""
		}
		if o.Msg != "macro not found" {
			return vlib.V("c10:undefined-other-error", "undefined macro: %s", o.Brief()), ""
		}
	default:
		if !o.OK() {
			return vlib.V("c10:acyclic-rejected:"+errClass(o.Msg), "an acyclic macro graph with all names defined is rejected: %s", o.Brief()), ""
		}
	}
	return nil, ""
}

var c10Graph = &vlib.Check{
	Prop: "C10", Name: "call-graphs", Quick: 3000, Thorough: 200000,
	Oracle: vlib.IsoOracle, Inner: c10GraphInner,
	Gen: func(t *rapid.T) *vlib.Case {
		r := vlib.RapidRnd{T: t}
		n, edges, roots := genMacroGraph(r, 7, 2)
		if sz := expansionSize(n, edges, roots, 3000); sz > 3000 {
			return nil
		}
		ctx := r.Intn(3) // use sites whose content may legally repeat (responses)
		explicit := vlib.Chance(r, 1, 3)
		defsFirst := explicit && vlib.Chance(r, 1, 2) // an implicit MACRO body is greedy: it would swallow a use site written after it
		doc := macroGraphDoc(n, edges, roots, ctx, explicit, defsFirst)
		cyc, undef, anyc, l := macroGraphFacts(n, edges, roots)
		// an undefined macro inside a never-pasted macro is not an error (macros are expanded on use)
		return &vlib.Case{Project: vlib.SingleFile(doc), Params: map[string]any{"cycle_reachable": cyc, "undefined": undef, "any_cycle": anyc, "cycle_len": l, "ctx": ctx}}
	},
	Classify: func(c *vlib.Case) (bool, []string) {
		var cls []string
		nt := false
		if c.Params["any_cycle"] == true {
			l := asInt(c.Params["cycle_len"])
			cls = append(cls, fmt.Sprintf("cycle-len-%d", l))
			nt = l >= 2
		} else {
			cls = append(cls, "acyclic")
		}
		if c.Params["undefined"] == true {
			cls = append(cls, "undefined-reachable")
			nt = true
		}
		return nt, cls
	},
}

var c10Shared = &vlib.Check{
	Prop: "C10", Name: "shared-macro", Quick: 1200, Thorough: 100000,
	Oracle:   sameCatalogOracle("c10", "macro"),
	Gen:      func(t *rapid.T) *vlib.Case { return sharedPieceCase(vlib.RapidRnd{T: t}, "macro") },
	Classify: func(c *vlib.Case) (bool, []string) { return true, []string{"macro-reused"} },
}

func init() { vlib.Register(c10Model, c10Unused, c10Graph, c10Shared) }

func TestC10(t *testing.T) {
	t.Run("model-macroize", c10Model.Run)
	t.Run("unused-definitions", c10Unused.Run)
	t.Run("call-graphs", c10Graph.Run)
	t.Run("shared-macro", c10Shared.Run)
}
