package props

import (
	"fmt"
	"strings"

	"pgregory.net/rapid"

	"github.com/jsightapi/jsight-api-core/core"
	"github.com/jsightapi/jsight-api-core/directive"

	"verif/vlib"
)

// C01 - "within time proportional to the input", decided on deterministic measures of the work a build does instead of
// on the clock: the number of directives after macro expansion, the number of files opened, the size of the catalog JSON.
// For inputs of at most 8 KiB legitimate reuse (one macro pasted at many places, one file included many times, one type
// referred to many times) stays far below the bounds; a chain in which every macro / file / type uses the next one twice
// doubles the work per link and crosses them after a dozen links (a few hundred bytes).
const (
	workDirectivesPerByte = 16  // expanded directives per input byte
	workFilesPerByte      = 1   // files opened per input byte
	workJSONPerByte       = 500 // bytes of catalog JSON per input byte
)

func countDirectives(dd []*directive.Directive) int {
	n := 0
	for _, d := range dd {
		n += 1 + countDirectives(d.Children)
	}
	return n
}

func c01WorkOracle(c *vlib.Case) *vlib.Violation {
	p := c.Project
	input := 0
	for _, f := range p.Files {
		input += len(f)
	}
	if input == 0 || input > 8<<10 {
		return nil
	}
	c14Mu.Lock()
	defer c14Mu.Unlock()
	opened := 0
	core.VerifSetFileAccessObserver(func(string) { opened++ })
	defer core.VerifSetFileAccessObserver(nil)
	cr, out, _, done := vlib.BuildCore(p)
	defer done()
	if opened > workFilesPerByte*input {
		return vlib.V("c01:work-not-proportional:files-opened", "%d bytes of input, %d files opened (%s)", input, opened, out.Brief())
	}
	if cr == nil || out.Crashed() {
		return nil
	}
	if n := countDirectives(cr.VerifExpandedDirectives()); n > workDirectivesPerByte*input {
		return vlib.V("c01:work-not-proportional:expanded-directives", "%d bytes of input, %d directives after macro expansion (%s)", input, n, out.Brief())
	}
	if !out.OK() {
		return nil
	}
	var js []byte
	if sig, _, _ := vlib.Safely(func() { js, _ = cr.Catalog().ToJson() }); sig != "" {
		return nil
	}
	if len(js) > workJSONPerByte*input {
		return vlib.V("c01:work-not-proportional:catalog-size", "%d bytes of input, %d bytes of catalog JSON", input, len(js))
	}
	return nil
}

// genChain: n links, every link uses the next one k times (k = 1: a plain chain; k >= 2: the work multiplies per link);
// or one leaf used w times from one place (wide reuse: linear).
func genChain(r vlib.Rnd) (*vlib.Project, string, int, int) {
	kind := vlib.Pick(r, []string{"macro", "include", "type"})
	k := 1 + r.Intn(3)
	maxN := map[string]int{"macro": 15, "include": 11, "type": 13}[kind]
	if k == 3 {
		maxN = maxN * 2 / 3
	}
	n := 2 + r.Intn(maxN-1)
	if vlib.Chance(r, 1, 5) {
		// wide reuse
		k, n = 20+r.Intn(60), 1
	}
	files := map[string][]byte{}
	var sb strings.Builder
	sb.WriteString("JSIGHT 0.3\n\n")
	switch kind {
	case "macro":
		sb.WriteString("GET /a\n  PASTE @m0\n\n")
		for i := 0; i < n; i++ {
			fmt.Fprintf(&sb, "MACRO @m%d\n(\n", i)
			for j := 0; j < k; j++ {
				fmt.Fprintf(&sb, "  PASTE @m%d\n", i+1)
			}
			sb.WriteString(")\n")
		}
		fmt.Fprintf(&sb, "MACRO @m%d\n(\n  %d any\n)\n", n, 200+r.Intn(5))
	case "include":
		sb.WriteString("INCLUDE f0.jst\n")
		for i := 0; i < n; i++ {
			files[fmt.Sprintf("f%d.jst", i)] = []byte(strings.Repeat(fmt.Sprintf("INCLUDE f%d.jst\n", i+1), k))
		}
		files[fmt.Sprintf("f%d.jst", n)] = []byte("# leaf\n")
	default:
		sb.WriteString("GET /a\n  200 @t0\n\n")
		for i := 0; i < n; i++ {
			fmt.Fprintf(&sb, "TYPE @t%d\n{\n", i)
			for j := 0; j < k; j++ {
				comma := ","
				if j == k-1 {
					comma = ""
				}
				fmt.Fprintf(&sb, "  \"p%d\": @t%d%s\n", j, i+1, comma)
			}
			sb.WriteString("}\n")
		}
		fmt.Fprintf(&sb, "TYPE @t%d\n  1\n", n)
	}
	files["root.jst"] = []byte(sb.String())
	return &vlib.Project{Root: "root.jst", Files: files}, kind, n, k
}

var c01Work = &vlib.Check{
	Prop: "C01", Name: "work", Quick: 160, Thorough: 6000,
	Oracle: c01WorkOracle,
	Gen: func(t *rapid.T) *vlib.Case {
		p, kind, n, k := genChain(vlib.RapidRnd{T: t})
		return &vlib.Case{Project: p, Params: map[string]any{"chain": kind, "links": n, "uses": k}}
	},
	Classify: func(c *vlib.Case) (bool, []string) {
		k, n := asInt(c.Params["uses"]), asInt(c.Params["links"])
		shape := "multiplying"
		switch {
		case n == 1:
			shape = "wide-reuse"
		case k == 1:
			shape = "plain-chain"
		}
		return true, []string{"chain:" + fmt.Sprint(c.Params["chain"]) + ":" + shape}
	},
	SampleOf: func(c *vlib.Case) any {
		return map[string]any{"chain": c.Params["chain"], "links": c.Params["links"], "uses": c.Params["uses"], "root": clip(c.Project.RootBytes(), 160)}
	},
}

func init() { vlib.Register(c01Work) }
