package props

import (
	"fmt"
	"strings"
	"testing"

	"github.com/jsightapi/jsight-schema-core/fs"
	"pgregory.net/rapid"

	"github.com/jsightapi/jsight-api-core/scanner"

	"verif/vlib"
)

// C01 – building is total.  Every case is evaluated in an isolated worker: a recovered panic, a dead worker or a
// confirmed hang is a violation; anything else must be a catalog or a structured error.

func c01Inner(c *vlib.Case) (*vlib.Violation, string) {
	b := vlib.Build(c.Project)
	defer b.Close()
	o := b.Out
	switch {
	case o.Kind == "panic":
		return vlib.V(o.Sig, "build panicked: %s\n%s", o.Panic, firstLines(o.Stack, 30)), ""
	case o.Kind == "nilcatalog":
		return vlib.V("c01:nil-catalog", "build returned neither a catalog nor an error"), ""
	case o.Err():
		if o.FileNil {
			return vlib.V("c01:error-without-file", "error %q carries no file", o.Msg), ""
		}
		if o.Msg == "" {
			return vlib.V("c01:error-without-message", "error value with empty message (%s)", o.Brief()), ""
		}
	}
	return nil, o.Kind
}

func firstLines(s string, n int) string {
	ll := strings.SplitN(s, "\n", n+1)
	if len(ll) > n {
		ll = ll[:n]
	}
	return strings.Join(ll, "\n")
}

// keywordCount runs the repo's scanner independently of the build to classify a case as non-trivial.
func keywordCount(b []byte) (n int) {
	defer func() { _ = recover() }()
	s := scanner.NewJApiScanner(fs.NewFile("x", b))
	for i := 0; i < 10000; i++ {
		l, e := s.Next()
		if e != nil || l == nil {
			return
		}
		if l.Type() == scanner.Keyword {
			n++
		}
	}
	return
}

func c01Classify(c *vlib.Case) (bool, []string) {
	p := c.Project
	root := p.RootBytes()
	var cls []string
	nt := false
	s := string(root)
	if strings.Contains(s, "INCLUDE") {
		cls = append(cls, "has-include")
		nt = true
	}
	if strings.Contains(s, "MACRO") || strings.Contains(s, "PASTE") {
		cls = append(cls, "has-macro")
		nt = true
	}
	if len(p.Files) > 1 {
		cls = append(cls, "multi-file")
		nt = true
	}
	if !nt && keywordCount(root) >= 2 {
		nt = true
	}
	if strings.ContainsAny(s, "\x00") {
		cls = append(cls, "has-nul")
	}
	if strings.Contains(s, "\r") {
		cls = append(cls, "has-cr")
	}
	if p.NoRoot {
		cls = append(cls, "no-root")
		nt = true
	}
	if nt {
		cls = append(cls, "nontrivial")
	}
	return nt, cls
}

var c01Mut = &vlib.Check{
	Prop: "C01", Name: "mutated", Quick: 24000, Thorough: 1600000,
	Oracle: vlib.IsoOracle, Inner: c01Inner, Classify: c01Classify,
	Gen: func(t *rapid.T) *vlib.Case {
		r := vlib.RapidRnd{T: t}
		return &vlib.Case{Project: vlib.SingleFile(genMutated(r, 4000))}
	},
}

// c01Families: the grammar families written for the serialisation properties (allOf, Path, or, JSON-RPC names, regex) are
// building-totality inputs as well: whatever they contain, the build returns a catalog or an error.
var c01Families = &vlib.Check{
	Prop: "C01", Name: "families", Quick: 4000, Thorough: 300000,
	Oracle: vlib.IsoOracle, Inner: c01Inner, Classify: c01Classify,
	Gen: func(t *rapid.T) *vlib.Case {
		r := vlib.RapidRnd{T: t}
		var b []byte
		switch r.Intn(9) {
		case 7, 8:
			return &vlib.Case{Project: genDescriptionFamily(r)}
		case 5, 6:
			b = genAliasFamily(r, true)
		case 0:
			b = genAllOfFamily(r)
		case 1:
			b = genPathFamily(r)
		case 2:
			b = genOrFamily(r)
		case 3:
			b = genRPCFamily(r)
		default:
			b = genRegexFamily(r)
		}
		return &vlib.Case{Project: vlib.SingleFile(b)}
	},
}

// genNestingDoc: a schema of n nested arrays / objects (a "nesting bomb": two bytes per level) as the body of a TYPE, a
// response, a Request or JSON-RPC Params; closed, or cut off before the closing brackets.
func genNestingDoc(r vlib.Rnd, n int) ([]byte, string) {
	var open, close, shape string
	switch r.Intn(4) {
	case 0:
		open, close, shape = "{\"a\":", "}", "objects"
	case 1:
		open, close, shape = "[{\"a\":", "}]", "mixed"
	default:
		open, close, shape = "[", "]", "arrays"
	}
	levels := n
	if shape == "mixed" {
		levels = n / 2
	}
	body := strings.Repeat(open, levels) + "1"
	if vlib.Chance(r, 1, 8) {
		shape += "-unclosed"
	} else {
		body += strings.Repeat(close, levels)
	}
	if vlib.Chance(r, 2, 3) {
		// the deep part is a property of an object whose first lines carry what a bracket counter has to skip: a note, a
		// comment, a string with brackets in it
		pro := vlib.Pick(r, []string{"{ // note [[[\n", "{ # comment {{{\n", "{\n\"s\": \"[[[{{{\", // {optional: true}\n", "{ /* [[[\n{{{ */\n", "{\n###\n[[[\n###\n"})
		body = pro + "\"deep\": " + body + "\n}"
		shape += "+prologue"
	}
	var doc string
	switch r.Intn(4) {
	case 0:
		doc = "JSIGHT 0.3\n\nTYPE @a\n  " + body + "\n\nGET /a\n  200 @a\n"
	case 1:
		doc = "JSIGHT 0.3\n\nPOST /a\n  Request\n    " + body + "\n  200 any\n"
	case 2:
		doc = "JSIGHT 0.3\n\nURL /r\n  Protocol json-rpc-2.0\n  Method m\n    Params\n      " + body + "\n"
	default:
		doc = "JSIGHT 0.3\n\nGET /a\n  200\n    " + body + "\n"
	}
	switch r.Intn(3) {
	case 0:
		doc = strings.ReplaceAll(doc, "\n", "\r\n")
		shape += "+crlf"
	case 1:
		doc = strings.ReplaceAll(doc, "\n", "\r")
		shape += "+cr"
	}
	return []byte(doc), shape
}

// c01Nesting: nesting depth from a few levels to more than a million (a 3 MB document): the build returns a catalog or
// an error, in time; it does not exhaust the stack of the process.
var c01Nesting = &vlib.Check{
	Prop: "C01", Name: "nesting", Quick: 120, Thorough: 2400,
	Oracle: vlib.IsoOracle, Inner: c01Inner,
	Gen: func(t *rapid.T) *vlib.Case {
		r := vlib.RapidRnd{T: t}
		var n int
		switch r.Intn(6) {
		case 0:
			n = 1 + r.Intn(200)
		case 1:
			n = 4800 + r.Intn(300)
		case 2:
			n = 5000 + r.Intn(60000)
		case 3:
			n = 100000 + r.Intn(900000)
		default:
			n = 1000000 + r.Intn(700000)
		}
		doc, shape := genNestingDoc(r, n)
		return &vlib.Case{Project: vlib.SingleFile(doc), Params: map[string]any{"levels": n, "shape": shape}}
	},
	Classify: func(c *vlib.Case) (bool, []string) {
		n := asInt(c.Params["levels"])
		cls := []string{"shape:" + fmt.Sprint(c.Params["shape"])}
		switch {
		case n >= 1000000:
			cls = append(cls, "levels>=1e6")
		case n >= 100000:
			cls = append(cls, "levels>=1e5")
		case n >= 5000:
			cls = append(cls, "levels>=5e3")
		default:
			cls = append(cls, "levels<5e3")
		}
		return n >= 1000, cls
	},
	SampleOf: func(c *vlib.Case) any {
		return map[string]any{"levels": c.Params["levels"], "shape": c.Params["shape"], "bytes": len(c.Project.RootBytes()), "head": clip(c.Project.RootBytes(), 60)}
	},
}

// genDescriptionFamily: Description texts whose lines are indented irregularly - more, less, by tabs, whitespace-only lines
// shorter and longer than the indentation of the text - in the plain and the parenthesised form, under INFO, TAG, a method
// and a JSON-RPC method, with every line-ending convention; sometimes in an included file, sometimes with a NUL byte.
func genDescriptionFamily(r vlib.Rnd) *vlib.Project {
	nl := vlib.Pick(r, []string{"\n", "\n", "\r\n", "\r"})
	text := func(ind string) string {
		var sb strings.Builder
		n := 1 + r.Intn(5)
		for i := 0; i < n; i++ {
			switch r.Intn(7) {
			case 0:
				sb.WriteString(nl) // empty line
			case 1:
				sb.WriteString(vlib.Pick(r, []string{" ", "  ", "\t", ind + "    ", ind[:len(ind)/2]}) + nl) // blanks only
			case 2:
				sb.WriteString(ind + "      deeper line" + nl)
			case 3:
				sb.WriteString("\t" + "tabbed line" + nl)
			default:
				sb.WriteString(ind + vlib.Pick(r, []string{"text line", "(not a context)", "a # b", "x // y", "  two more blanks"}) + nl)
			}
		}
		return sb.String()
	}
	desc := func(ind string) string {
		if vlib.Chance(r, 1, 3) {
			return ind + "Description" + nl + ind + "(" + nl + text(ind+"  ") + ind + ")" + nl
		}
		return ind + "Description" + nl + ind + "  first" + nl + text(ind+"  ")
	}
	var sb strings.Builder
	switch r.Intn(4) {
	case 0:
		sb.WriteString("INFO" + nl + "  Title \"t\"" + nl + desc("  "))
	case 1:
		sb.WriteString("TAG @g" + nl + desc("  "))
	case 2:
		sb.WriteString("GET /d" + nl + desc("      ") + "  200 any" + nl)
	default:
		sb.WriteString("URL /r" + nl + "  Protocol json-rpc-2.0" + nl + "  Method m" + nl + desc("    ") + "    Params" + nl + "      {}" + nl)
	}
	body := sb.String()
	if vlib.Chance(r, 1, 6) {
		// a NUL byte somewhere in the block
		i := r.Intn(len(body) + 1)
		body = body[:i] + "\x00" + body[i:]
	}
	if vlib.Chance(r, 1, 3) {
		return &vlib.Project{Root: "root.jst", Files: map[string][]byte{
			"root.jst": []byte("JSIGHT 0.3" + nl + "INCLUDE part.jst" + nl + "GET /after" + nl + "  200 any" + nl),
			"part.jst": []byte(body)}}
	}
	return vlib.SingleFile([]byte("JSIGHT 0.3" + nl + body))
}

var c01Soup = &vlib.Check{
	Prop: "C01", Name: "soup", Quick: 12000, Thorough: 800000,
	Oracle: vlib.IsoOracle, Inner: c01Inner, Classify: c01Classify,
	Gen: func(t *rapid.T) *vlib.Case {
		r := vlib.RapidRnd{T: t}
		return &vlib.Case{Project: vlib.SingleFile(genSoup(r, 8))}
	},
}

// c01LongLines: an error on a (last) line longer than the 200-byte quote limit, made of arbitrary bytes, with or without a
// final line break.
var c01LongLines = &vlib.Check{
	Prop: "C01", Name: "long-lines", Quick: 3000, Thorough: 120000,
	Oracle: vlib.IsoOracle, Inner: c01Inner, Classify: c01Classify,
	Gen: func(t *rapid.T) *vlib.Case {
		r := vlib.RapidRnd{T: t}
		var sb strings.Builder
		sb.WriteString(vlib.Pick(r, []string{"", "JSIGHT 0.3\n", "JSIGHT 0.3\nGET /a // ", "JSIGHT 0.3\nTYPE @a\n  ", "JSIGHT 0.3\n# ", "x"}))
		n := 150 + r.Intn(200)
		fill := vlib.Pick(r, []string{"\xbf", "\xa0", "\x80\xbf", "é", "a", " ", "\xff", "ab\xa0", "\t"})
		for sb.Len() < n {
			sb.WriteString(fill)
		}
		if vlib.Chance(r, 1, 3) {
			sb.WriteString(vlib.Pick(r, soupKeywords))
		}
		if vlib.Chance(r, 1, 3) {
			sb.WriteString(vlib.Pick(r, []string{"\n", "\r\n", "\r", "\n\n"}))
		}
		return &vlib.Case{Project: vlib.SingleFile([]byte(sb.String()))}
	},
}

var c01Macro = &vlib.Check{
	Prop: "C01", Name: "macro-graph", Quick: 3000, Thorough: 160000,
	Oracle: vlib.IsoOracle, Inner: c01Inner,
	Gen: func(t *rapid.T) *vlib.Case {
		r := vlib.RapidRnd{T: t}
		n, edges, roots := genMacroGraph(r, 8, 2)
		if sz := expansionSize(n, edges, roots, 5000); sz > 5000 {
			return nil
		}
		doc := macroGraphDoc(n, edges, roots, r.Intn(5), vlib.Chance(r, 1, 3), vlib.Chance(r, 1, 2))
		cyc, undef, anyc, l := macroGraphFacts(n, edges, roots)
		return &vlib.Case{Project: vlib.SingleFile(doc), Params: map[string]any{"cycle_reachable": cyc, "undefined": undef, "any_cycle": anyc, "cycle_len": l}}
	},
	Classify: func(c *vlib.Case) (bool, []string) {
		var cls []string
		if c.Params["any_cycle"] == true {
			cls = append(cls, fmt.Sprintf("cycle-len-%v", c.Params["cycle_len"]))
		} else {
			cls = append(cls, "acyclic")
		}
		if c.Params["undefined"] == true {
			cls = append(cls, "undefined-macro")
		}
		return true, cls
	},
}

var c01Include = &vlib.Check{
	Prop: "C01", Name: "include-graph", Quick: 2500, Thorough: 120000,
	Oracle: vlib.IsoOracle, Inner: c01Inner, Classify: c01Classify,
	Gen: func(t *rapid.T) *vlib.Case {
		r := vlib.RapidRnd{T: t}
		p := genIncludeProject(r, true)
		p.ViaPath = vlib.Chance(r, 1, 2)
		return &vlib.Case{Project: p}
	},
}

// genIncludeProject builds a project of up to 5 files that INCLUDE each other in arbitrary ways; hostile adds
// missing files, directories, empty names and extra lexemes after the file name.
func genIncludeProject(r vlib.Rnd, hostile bool) *vlib.Project {
	names := []string{"root.jst", "a.jst", "b.jst", "sub/c.jst", "sub/deep/d.jst"}
	n := 1 + r.Intn(len(names))
	p := &vlib.Project{Root: "root.jst", Files: map[string][]byte{}}
	p.Dirs = []string{"dir.jst", "sub"}
	fillers := []string{"GET /x%d\n  200 any\n", "TYPE @t%d\n  {\"a\": 1}\n", "  200 any\n", "  404 empty\n", "URL /u%d\n", "  GET\n", "# c\n", "ENUM @e%d\n  [1]\n", "MACRO @m%d\n  200 any\n", "PASTE @m%d\n", "(\n", ")\n"}
	for i := 0; i < n; i++ {
		var sb strings.Builder
		if i == 0 && vlib.Chance(r, 9, 10) {
			sb.WriteString("JSIGHT 0.3\n")
		}
		k := r.Intn(5)
		for j := 0; j < k; j++ {
			if vlib.Chance(r, 1, 2) {
				target := ""
				if hostile && vlib.Chance(r, 1, 4) {
					target = vlib.Pick(r, []string{"missing.jst", "dir.jst", "sub", "\"\"", "..", ".", "../root.jst", "/etc/passwd", "a.jst extra", "a.jst {", "a.jst // ann", "\"a.jst\" \"b.jst\"", "a\\b.jst", "sub/../a.jst"})
				} else {
					t := names[r.Intn(n)]
					// path relative to the including file's directory
					target = relTo(names[i], t)
					if vlib.Chance(r, 1, 4) {
						target = "\"" + target + "\""
					}
				}
				ind := vlib.Pick(r, []string{"", "", "  ", "    "})
				sb.WriteString(ind + "INCLUDE " + target + "\n")
			} else {
				f := vlib.Pick(r, fillers)
				if strings.Contains(f, "%d") {
					f = fmt.Sprintf(f, r.Intn(3))
				}
				sb.WriteString(f)
			}
		}
		b := []byte(sb.String())
		if vlib.Chance(r, 1, 6) && len(b) > 0 {
			b = b[:len(b)-1] // no trailing newline
		}
		p.Files[names[i]] = b
	}
	return p
}

// relTo expresses target (project relative) relative to the directory of from, without "..": if that is impossible
// the project-relative name is returned (it will then simply be missing).
func relTo(from, target string) string {
	dir := ""
	if i := strings.LastIndex(from, "/"); i >= 0 {
		dir = from[:i+1]
	}
	if strings.HasPrefix(target, dir) {
		return target[len(dir):]
	}
	return target
}

// c01Roots: nonexistent root, empty root, directory as root, tiny roots – through the path-based entry point.
var c01Roots = &vlib.Check{
	Prop: "C01", Name: "roots",
	Oracle: vlib.IsoOracle, Inner: c01Inner, Classify: c01Classify,
}

// c01Prefix: every prefix of small documents (truncated directives).
var c01Prefix = &vlib.Check{
	Prop: "C01", Name: "prefixes",
	Oracle: vlib.IsoOracle, Inner: c01Inner, Classify: c01Classify,
}

func init() {
	vlib.Register(c01Mut, c01Soup, c01Macro, c01Include, c01Roots, c01Prefix, c01LongLines, c01Families, c01Nesting)
}

func TestC01(t *testing.T) {
	ev := vlib.Ev("C01")
	if vlib.Shard() == 0 {
		t.Run("roots", func(t *testing.T) {
			var cases []*vlib.Case
			for _, content := range []string{"", "\n", " ", "JSIGHT 0.3", "JSIGHT 0.3\n", "(", ")", "#", "\x00", "\xff\xfe", "INCLUDE root.jst", "\r", "\r\n"} {
				for _, via := range []bool{false, true} {
					p := vlib.SingleFile([]byte(content))
					p.ViaPath = via
					cases = append(cases, &vlib.Case{Project: p})
				}
			}
			p := vlib.SingleFile(nil)
			p.NoRoot = true
			cases = append(cases, &vlib.Case{Project: p, Note: "root file does not exist"})
			p = &vlib.Project{Root: "rootdir", Files: map[string][]byte{"rootdir": nil}, Dirs: []string{"rootdir"}, NoRoot: true}
			cases = append(cases, &vlib.Case{Project: p, Note: "root is a directory"})
			// errors located in an empty included file
			p = &vlib.Project{Root: "root.jst", Files: map[string][]byte{"root.jst": []byte("JSIGHT 0.3\nGET /a\n(\nINCLUDE e.jst\n"), "e.jst": {}}}
			cases = append(cases, &vlib.Case{Project: p, Note: "error located in an empty file"})
			i := 0
			c01Roots.RunEnum(t, func() *vlib.Case {
				if i >= len(cases) {
					return nil
				}
				i++
				return cases[i-1]
			})
		})
		t.Run("macro-graphs-exhaustive", func(t *testing.T) {
			// all digraphs with out-degree <= 2 (ordered, no duplicate edges) on n nodes; quick: n<=2, thorough: n<=3 (+ sampled 4)
			maxN := 2
			if vlib.Tier() == "thorough" {
				maxN = 3
			}
			var cases []*vlib.Case
			for n := 1; n <= maxN; n++ {
				// adjacency bitmask per node
				total := 1
				for i := 0; i < n; i++ {
					total *= 1 << n
				}
				for code := 0; code < total; code++ {
					edges := make([][]int, n)
					x := code
					for i := 0; i < n; i++ {
						m := x % (1 << n)
						x /= 1 << n
						for j := 0; j < n; j++ {
							if m&(1<<j) != 0 {
								edges[i] = append(edges[i], j)
							}
						}
					}
					for ctx := 0; ctx < 5; ctx++ {
						if vlib.Tier() != "thorough" && ctx != 0 && ctx != 4 {
							continue
						}
						roots := []int{0}
						cyc, undef, anyc, l := macroGraphFacts(n, edges, roots)
						doc := macroGraphDoc(n, edges, roots, ctx, code%2 == 1, code%3 == 0)
						cases = append(cases, &vlib.Case{Project: vlib.SingleFile(doc), Params: map[string]any{"cycle_reachable": cyc, "undefined": undef, "any_cycle": anyc, "cycle_len": l}})
					}
				}
			}
			i := 0
			if c01Macro.RunEnum(t, func() *vlib.Case {
				if i >= len(cases) {
					return nil
				}
				i++
				return cases[i-1]
			}) {
				ev.Exhaustive(fmt.Sprintf("macro call graphs: all digraphs on <= %d macros x use-site contexts", maxN), true)
			}
		})
		t.Run("prefixes", func(t *testing.T) {
			loadSeeds()
			limit := 40
			if vlib.Tier() == "thorough" {
				limit = 400
			}
			var docs [][]byte
			// every kind of lexeme that has a closing delimiter, so that some prefix ends inside it or on its first byte
			docs = append(docs,
				[]byte("JSIGHT 0.3\n\nGET /x /* abc */\n  200 any /* a\n  b */\n"),
				[]byte("JSIGHT 0.3\n###\nblock\n###\nURL \"/q \\\" x\" // note\n(\n  GET\n  (\n    200 regex\n      /a\\/b/\n  )\n)\n"),
				[]byte("JSIGHT 0.3\nINFO\n  Description\n  (\n    text\n\n    more\n  )\nENUM @e /* n */\n  [\"a\", 1] # c\n"),
			)
			for _, s := range synthSeeds {
				docs = append(docs, []byte(s))
			}
			for _, d := range seedSmall {
				if len(docs) >= limit {
					break
				}
				if len(d) <= 300 {
					docs = append(docs, d)
				}
			}
			di, k := 0, 0
			c01Prefix.RunEnum(t, func() *vlib.Case {
				for di < len(docs) {
					if k > len(docs[di]) {
						di, k = di+1, 0
						continue
					}
					k++
					return &vlib.Case{Project: vlib.SingleFile(docs[di][:k-1])}
				}
				return nil
			})
		})
	}
	t.Run("mutated", c01Mut.Run)
	t.Run("soup", c01Soup.Run)
	t.Run("families", c01Families.Run)
	t.Run("macro-graph", c01Macro.Run)
	t.Run("include-graph", c01Include.Run)
	t.Run("long-lines", c01LongLines.Run)
	t.Run("nesting", c01Nesting.Run)
	t.Run("work", c01Work.Run)
	if vlib.SharedIsoStarted() {
		ev.Note("shard %d isolated worker: %s", vlib.Shard(), vlib.SharedIso().Stats())
	}
}
