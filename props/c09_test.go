package props

import (
	"bytes"
	"fmt"
	"regexp"
	"sort"
	"strings"
	"testing"

	"pgregory.net/rapid"

	"github.com/jsightapi/jsight-api-core/directive"

	"verif/mdl"
	"verif/vlib"
)

// C09 – INCLUDE is transparent.   C10 – PASTE is transparent.
// Case: Project = reference form (single file), Project2 = transformed form; the oracle builds both.

func sameCatalogOracle(prop, what string) func(c *vlib.Case) *vlib.Violation {
	return func(c *vlib.Case) *vlib.Violation {
		b1 := vlib.Build(c.Project)
		defer b1.Close()
		b2 := vlib.Build(c.Project2)
		defer b2.Close()
		if b1.Out.Crashed() || b2.Out.Crashed() {
			if b2.Out.Crashed() && !b1.Out.Crashed() {
				return vlib.V(prop+":crash:"+b2.Out.Sig, "the %s form crashes: %s", what, b2.Out.Panic)
			}
			return nil
		}
		switch {
		case b1.Out.OK() && b2.Out.OK():
			j1, e1 := b1.Api.ToJson()
			j2, e2 := b2.Api.ToJson()
			if e1 != nil || e2 != nil {
				if (e1 == nil) != (e2 == nil) {
					return vlib.V(prop+":tojson-error", "ToJson: reference form %v, %s form %v", e1, what, e2)
				}
				return nil
			}
			if !bytes.Equal(j1, j2) {
				a, _ := vlib.ParseOrdered(j1)
				b, _ := vlib.ParseOrdered(j2)
				if hasRegexType(c.Project) {
					a, b = a.StripExamples(), b.StripExamples()
					if a.Canon(false) == b.Canon(false) {
						vlib.Ev(strings.ToUpper(prop)).Class("normalised:regex-examples-differ(N5)")
						return nil
					}
				}
				d := vlib.FirstDiff(a, b, "")
				sec := strings.SplitN(strings.TrimPrefix(d, "/"), "/", 2)[0]
				sec = strings.SplitN(sec, ":", 2)[0]
				return vlib.V(prop+":catalog-differs:"+sec, "the catalog of the %s form differs from the reference form: %s", what, d)
			}
			return nil
		case b1.Out.OK() && !b2.Out.OK():
			return vlib.V(prop+":rejected:"+errClass(b2.Out.Msg), "the reference form is accepted, the %s form is rejected: %s", what, b2.Out.Brief())
		case !b1.Out.OK() && b2.Out.OK():
			return vlib.V(prop+":accepted-only-transformed", "the reference form is rejected (%s), the %s form is accepted", b1.Out.Brief(), what)
		}
		// both rejected: same message; location is compared when the case carries the expectation
		if want, ok := c.Params["expect_error"].(map[string]any); ok {
			o := b2.Out
			if o.Msg != b1.Out.Msg {
				return vlib.V(prop+":error-message-differs", "reference form: %s; %s form: %s", b1.Out.Brief(), what, o.Brief())
			}
			wf, _ := want["file"].(string)
			wl := 0
			switch n := want["line"].(type) {
			case float64:
				wl = int(n)
			case int:
				wl = n
			}
			if wf != "" && (o.File != wf || o.Line != wl) {
				return vlib.V(prop+":error-location", "the %s form reports %s:%d, the directive now lives at %s:%d (reference form: %s)", what, o.File, o.Line, wf, wl, b1.Out.Brief())
			}
		} else if errClass(b1.Out.Msg) != errClass(b2.Out.Msg) {
			return vlib.V(prop+":error-message-differs", "reference form: %s; %s form: %s", b1.Out.Brief(), what, b2.Out.Brief())
		}
		return nil
	}
}

var regexTypeRe = regexp.MustCompile(`(?:^|[\r\n])[ \t]*TYPE[ \t]+\S+[ \t]+"?regex`)

// hasRegexType: does the project declare a user type of the regex notation?  Decided on the catalog of an unbanned build
// (the text of a TYPE line may carry comments between its tokens); the line pattern is the fallback for rejected projects.
func hasRegexType(p *vlib.Project) bool {
	q := p.Clone()
	q.Banned = nil
	b := vlib.Build(q)
	defer b.Close()
	if b.Out.OK() {
		if js, err := b.Api.ToJson(); err == nil {
			if doc, err := vlib.ParseOrdered(js); err == nil {
				if ut := doc.Get("userTypes"); ut != nil {
					for _, t := range ut.Vals {
						if sc := t.Get("schema"); sc != nil && sc.S("notation") == "regex" {
							return true
						}
					}
				}
				return false
			}
		}
	}
	for _, b := range p.Files {
		if regexTypeRe.Match(b) {
			return true
		}
	}
	return false
}

var c09Model = &vlib.Check{
	Prop: "C09", Name: "model-split", Quick: 3000, Thorough: 320000,
	Oracle: sameCatalogOracle("c09", "split"),
	Gen: func(t *rapid.T) *vlib.Case {
		r := vlib.RapidRnd{T: t}
		doc := mdl.Gen(r)
		tree := mdl.BuildTree(doc, mdl.TreeOpts{R: r})
		lay := mdl.RandomLayout(r)
		base := mdl.Render(tree, lay)
		st, cuts, nested, ragged := mdl.SplitRagged(r, tree, 1+r.Intn(5), 1+r.Intn(4), true)
		if cuts == 0 {
			return nil
		}
		sp := mdl.Render(st, lay)
		return &vlib.Case{Project: renderedProject(base), Project2: renderedProject(sp), Params: map[string]any{"cuts": cuts, "nested": nested, "ragged": ragged, "files": len(sp.Files)}}
	},
	Classify: func(c *vlib.Case) (bool, []string) {
		cuts, _ := c.Params["cuts"].(int)
		nested, _ := c.Params["nested"].(int)
		if f, ok := c.Params["cuts"].(float64); ok {
			cuts = int(f)
		}
		if f, ok := c.Params["nested"].(float64); ok {
			nested = int(f)
		}
		cls := []string{fmt.Sprintf("cuts-%d", min(cuts, 5))}
		if nested > 0 {
			cls = append(cls, "nested-cut")
		}
		if asInt(c.Params["ragged"]) > 0 {
			cls = append(cls, "ragged-cut") // a piece ends inside a sub-tree: the includer continues the context it left open
		}
		return (cuts >= 2 && nested >= 1) || asInt(c.Params["ragged"]) > 0, cls
	},
}

// corpus split: every root-level block of a corpus document becomes its own file (root directives are located through the
// read-only tree accessor of an unsplit build; the split itself is textual).
func corpusSplit(p *vlib.Project, r vlib.Rnd) (*vlib.Project, map[int][2]any) {
	if len(p.Files) != 1 {
		return nil, nil
	}
	src := p.RootBytes()
	if vlib.LineConvention(src) == "mixed" {
		return nil, nil
	}
	c, out, _, done := vlib.BuildCore(p)
	defer done()
	if c == nil || out.Crashed() {
		return nil, nil
	}
	var starts []int
	nodes := 0
	var count func(d *directive.Directive)
	count = func(d *directive.Directive) {
		nodes++
		for _, ch := range d.Children {
			count(ch)
		}
	}
	for i, d := range c.VerifDirectives() {
		if i > 0 && d.Type() == directive.Jsight {
			return nil, nil // JSIGHT may not move into an included file (language rule)
		}
		starts = append(starts, int(d.VerifKeywordBegin()))
		count(d)
	}
	for _, d := range c.VerifMacros() {
		starts = append(starts, int(d.VerifKeywordBegin()))
		count(d)
	}
	// the tree must be complete: the scan phase (lexical and context errors) must have passed
	lx := lexAll(src)
	if lx.Failed || lx.Panic != "" || strings.Count(lx.Types, "K") != nodes {
		return nil, nil
	}
	sort.Ints(starts)
	if len(starts) < 2 {
		return nil, nil
	}
	// line starts of the root directives (skip the first: JSIGHT stays in the root file)
	lineStart := func(i int) int {
		for i > 0 && src[i-1] != '\n' && src[i-1] != '\r' {
			i--
		}
		return i
	}
	var cutsAt []int
	for _, s := range starts[1:] {
		ls := lineStart(s)
		if len(cutsAt) > 0 && cutsAt[len(cutsAt)-1] >= ls {
			continue
		}
		// the indentation before the keyword must be blank (a root directive always starts its line)
		if strings.TrimSpace(string(src[ls:s])) != "" {
			return nil, nil
		}
		cutsAt = append(cutsAt, ls)
	}
	if len(cutsAt) == 0 || cutsAt[0] == 0 {
		return nil, nil
	}
	eol := "\n"
	switch vlib.LineConvention(src) {
	case "crlf":
		eol = "\r\n"
	case "cr":
		eol = "\r"
	}
	q := &vlib.Project{Root: p.Root, Files: map[string][]byte{}}
	var root bytes.Buffer
	root.Write(src[:cutsAt[0]])
	if !bytes.HasSuffix(root.Bytes(), []byte(eol)) && root.Len() > 0 {
		root.WriteString(eol)
	}
	lineMap := map[int][2]any{} // original line -> (file, line)
	// lines of the head part map to themselves
	for i := 0; i < len(cutsAt); i++ {
		end := len(src)
		if i+1 < len(cutsAt) {
			end = cutsAt[i+1]
		}
		// merge some neighbouring pieces into one file
		name := fmt.Sprintf("piece%d.jst", i)
		q.Files[name] = src[cutsAt[i]:end]
		root.WriteString("INCLUDE " + name + eol)
	}
	q.Files[p.Root] = root.Bytes()
	return q, lineMap
}

var c09Corpus = &vlib.Check{
	Prop: "C09", Name: "corpus-split",
	Oracle: sameCatalogOracle("c09", "split"),
	Classify: func(c *vlib.Case) (bool, []string) {
		n := len(c.Project2.Files)
		return n >= 3, []string{fmt.Sprintf("files>=%d", min(n, 4))}
	},
}

// sharedPieceCase: two URL blocks with identical children; in the transformed form both take them from one shared piece.
func sharedPieceCase(r vlib.Rnd, mode string) *vlib.Case {
	doc := mdl.Gen(r)
	a, b, ok := mdl.Twin(r, doc)
	if !ok {
		return nil
	}
	tree := mdl.BuildTree(doc, mdl.TreeOpts{R: r, Plain: true})
	lay := mdl.RandomLayout(r)
	base := mdl.Render(tree, lay)
	st, ok := mdl.ShareChildren(tree, fmt.Sprintf("B%d", a), fmt.Sprintf("B%d", b), mode)
	if !ok {
		return nil
	}
	sp := mdl.Render(st, lay)
	return &vlib.Case{Project: renderedProject(base), Project2: renderedProject(sp), Params: map[string]any{"mode": mode}}
}

var c09Shared = &vlib.Check{
	Prop: "C09", Name: "shared-piece", Quick: 1200, Thorough: 100000,
	Oracle:   sameCatalogOracle("c09", "split"),
	Gen:      func(t *rapid.T) *vlib.Case { return sharedPieceCase(vlib.RapidRnd{T: t}, "include") },
	Classify: func(c *vlib.Case) (bool, []string) { return true, []string{"piece-included-twice"} },
}

// c09Deep: the whole document behind a chain of nested INCLUDEs, 2 to 40 files deep (no file repeated): the pieces of a
// split may themselves be split, to any depth - model-split nests up to 4.
var c09Deep = &vlib.Check{
	Prop: "C09", Name: "deep-chain", Quick: 400, Thorough: 30000,
	Oracle: sameCatalogOracle("c09", "split"),
	Gen: func(t *rapid.T) *vlib.Case {
		r := vlib.RapidRnd{T: t}
		doc := mdl.Gen(r)
		tree := mdl.BuildTree(doc, mdl.TreeOpts{R: r})
		lay := mdl.RandomLayout(r)
		base := mdl.Render(tree, lay)
		depth := 2 + r.Intn(7)
		if vlib.Chance(r, 1, 2) {
			depth = 9 + r.Intn(32)
		}
		st := mdl.Chain(r, tree, depth)
		if st == nil {
			return nil
		}
		sp := mdl.Render(st, lay)
		return &vlib.Case{Project: renderedProject(base), Project2: renderedProject(sp), Params: map[string]any{"depth": depth, "files": len(sp.Files)}}
	},
	Classify: func(c *vlib.Case) (bool, []string) {
		d := asInt(c.Params["depth"])
		cls := "depth-2..8"
		switch {
		case d > 32:
			cls = "depth-33..40"
		case d > 16:
			cls = "depth-17..32"
		case d > 8:
			cls = "depth-9..16"
		}
		return d > 8, []string{cls}
	},
}

func init() { vlib.Register(c09Model, c09Corpus, c09Shared, c09Deep) }

func TestC09(t *testing.T) {
	if vlib.Shard() == 0 {
		t.Run("corpus-split", func(t *testing.T) {
			cc := vlib.Corpus()
			i := 0
			c09Corpus.RunEnum(t, func() *vlib.Case {
				for i < len(cc) {
					e := cc[i]
					i++
					q, _ := corpusSplit(e.Project, nil)
					if q == nil {
						continue
					}
					return &vlib.Case{Project: e.Project, Project2: q, Note: e.Path}
				}
				return nil
			})
		})
	}
	t.Run("model-split", c09Model.Run)
	t.Run("fault-split", c09Faults.Run)
	t.Run("shared-piece", c09Shared.Run)
	t.Run("deep-chain", c09Deep.Run)
}

// c09Faults: the second sentence of the property.  A model document with one planted fault is rendered twice with the same
// layout, unsplit and cut into INCLUDE files (ragged cuts included).  The renderer knows where every directive is in both
// renderings, so "the corresponding line of the file that now holds the directive" is computed, not guessed: the error of
// the unsplit document lies d lines below the keyword of some directive; the split project must report the same message d
// lines below that directive's keyword in whatever file it lives now.
type c09PosRow struct {
	ID   int    `json:"id"`
	File string `json:"file"`
	Line int    `json:"line"`
}

func c09PosTable(rd *mdl.Rendered) []any {
	var rows []any
	for id, p := range rd.Pos {
		rows = append(rows, map[string]any{"id": id, "file": p.File, "line": p.Line})
	}
	sort.Slice(rows, func(i, j int) bool {
		return asInt(rows[i].(map[string]any)["id"]) < asInt(rows[j].(map[string]any)["id"])
	})
	return rows
}

func c09Rows(x any) []c09PosRow {
	var out []c09PosRow
	rows, _ := x.([]any)
	for _, r := range rows {
		m, _ := r.(map[string]any)
		f, _ := m["file"].(string)
		out = append(out, c09PosRow{ID: asInt(m["id"]), File: f, Line: asInt(m["line"])})
	}
	return out
}

func c09FaultOracle(c *vlib.Case) *vlib.Violation {
	b1 := vlib.Build(c.Project)
	defer b1.Close()
	if !b1.Out.Err() {
		return nil // the planted fault is not one the unsplit document is rejected for (or C01's business)
	}
	b2 := vlib.Build(c.Project2)
	defer b2.Close()
	if b2.Out.Crashed() {
		return vlib.V("c09:crash:"+b2.Out.Sig, "the split form of a rejected document crashes: %s", b2.Out.Panic)
	}
	if b2.Out.OK() {
		return vlib.V("c09:rejected-document-accepted-after-split:"+errClass(b1.Out.Msg), "unsplit: %s; the split project is accepted", b1.Out.Brief())
	}
	if c.Params["loose"] == true {
		// a missing body: the scanner notices it wherever it gives up reading what follows, and what follows ends earlier
		// in a piece - only the rejection is required (as in C03)
		return nil
	}
	if errClass(b1.Out.Msg) != errClass(b2.Out.Msg) {
		return vlib.V("c09:message-changes-after-split:"+errClass(b1.Out.Msg), "unsplit: %s\n split:  %s", b1.Out.Brief(), b2.Out.Brief())
	}
	src := c.Project.Files[b1.Out.File]
	if b1.Out.Index >= len(src) {
		return nil // at the end of the file: the end of the root file is not the end of the piece
	}
	base, split := c09Rows(c.Params["pos_base"]), c09Rows(c.Params["pos_split"])
	var at *c09PosRow
	for i := range base {
		r := &base[i]
		if r.File == b1.Out.File && r.Line <= b1.Out.Line && (at == nil || r.Line >= at.Line) {
			at = r
		}
	}
	if at == nil {
		return nil
	}
	for _, r := range split {
		if r.ID == at.ID {
			wantLine := r.Line + (b1.Out.Line - at.Line)
			if b2.Out.File != r.File || b2.Out.Line != wantLine {
				return vlib.V("c09:error-does-not-follow-the-directive:"+errClass(b1.Out.Msg), "unsplit: %s (directive #%d at %s:%d)\n split:  %s, expected at %s:%d", b1.Out.Brief(), at.ID, at.File, at.Line, b2.Out.Brief(), r.File, wantLine)
			}
			return nil
		}
	}
	return nil
}

var c09Faults = &vlib.Check{
	Prop: "C09", Name: "fault-split", Quick: 2000, Thorough: 200000,
	Oracle: c09FaultOracle,
	Gen: func(t *rapid.T) *vlib.Case {
		r := vlib.RapidRnd{T: t}
		doc := mdl.Gen(r)
		tree := mdl.BuildTree(doc, mdl.TreeOpts{R: r})
		var ft []*mdl.Dir
		var f *mdl.Fault
		if vlib.Chance(r, 1, 3) {
			ft, f = mdl.InjectScan(r, tree, r.Intn(len(mdl.ScanInjectors)))
		} else {
			ft, f = mdl.Inject(r, tree, r.Intn(len(mdl.Injectors)))
		}
		if f == nil || strings.HasPrefix(f.Class, "jsight:") {
			return nil // (JSIGHT lives in the root file)
		}
		lay := mdl.RandomLayout(r)
		base := mdl.Render(ft, lay)
		st, cuts, _, ragged := mdl.SplitRagged(r, ft, 1+r.Intn(4), 1+r.Intn(3), true)
		if cuts == 0 {
			return nil
		}
		sp := mdl.Render(st, lay)
		where := "fault-in-includer"
		if p, ok := sp.Pos[f.DirID]; ok && p.File != sp.Root {
			where = "fault-in-included-file"
		}
		return &vlib.Case{Project: renderedProject(base), Project2: renderedProject(sp), Params: map[string]any{
			"class": f.Class, "loose": f.NextLine, "cuts": cuts, "ragged": ragged, "where": where,
			"pos_base": c09PosTable(base), "pos_split": c09PosTable(sp)}}
	},
	Classify: func(c *vlib.Case) (bool, []string) {
		cls := []string{fmt.Sprint(c.Params["where"]), "class:" + strings.SplitN(fmt.Sprint(c.Params["class"]), ":", 2)[0]}
		b := vlib.Build(c.Project)
		defer b.Close()
		if !b.Out.Err() {
			return false, append(cls, "unsplit-not-rejected")
		}
		return true, cls
	},
	SampleOf: func(c *vlib.Case) any {
		return map[string]any{"class": c.Params["class"], "where": c.Params["where"], "cuts": c.Params["cuts"], "files": len(c.Project2.Files)}
	},
}

func init() { vlib.Register(c09Faults) }
