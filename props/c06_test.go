package props

import (
	"crypto/sha1"
	"encoding/hex"
	"fmt"
	"github.com/jsightapi/jsight-api-core/directive"
	"regexp"
	"strconv"
	"strings"
	"sync"
	"testing"

	"pgregory.net/rapid"

	"verif/vlib"
)

// C06 – determinism: K in-process rebuilds (Go randomises map iteration per range statement, so same-process repetition
// exposes order dependence) plus one rebuild in a fresh worker process must all give the same observable result.

func outcomeKey(b *vlib.Built) string {
	o := b.Out
	switch o.Kind {
	case "ok":
		js, err := b.Api.ToJson()
		if err != nil {
			return "OK tojson-error " + strconv.QuoteToASCII(err.Error())
		}
		h := sha1.Sum(js)
		return fmt.Sprintf("OK %d %s", len(js), hex.EncodeToString(h[:]))
	case "err":
		// everything is quoted to ASCII: the key crosses a JSON pipe when it comes from the worker process
		q := strconv.QuoteToASCII
		return fmt.Sprintf("ERR\x00%s\x00file=%s index=%d line=%d column=%d quote=%s text=%s", q(o.Msg), q(o.File), o.Index, o.Line, o.Column, q(o.Quote), q(o.ErrText))
	default:
		return "CRASH " + o.Sig
	}
}

func c06Inner(c *vlib.Case) (*vlib.Violation, string) {
	b := vlib.Build(c.Project)
	defer b.Close()
	k := outcomeKey(b)
	if b.Out.OK() {
		if js, err := b.Api.ToJson(); err == nil {
			return nil, k + "\x01" + strconv.QuoteToASCII(string(js))
		}
	}
	return nil, k
}

const c06Repeats = 6

var c06OtherProject = vlib.SingleFile([]byte("JSIGHT 0.3\n\nTYPE @other\n  {\"other\": [1, 2, 3]}\n\nGET /other/{id}\n  200 @other\n  404 any\n"))

func c06Oracle(c *vlib.Case) *vlib.Violation {
	first := ""
	firstJSON := ""
	var retained []byte
	orig := c.Project.Clone()
	defer func() {
		// restore the case (a build that modified its input must not poison the saved replay)
		for n, b := range orig.Files {
			c.Project.Files[n] = b
		}
	}()
	repeats := c06Repeats
	if n := asInt(c.Params["repeats"]); n > repeats {
		repeats = n
	}
	if vlib.Mode() == "replay" {
		repeats = 40 // replays and known-finding probes must not pass by luck
	}
	for i := 0; i < repeats; i++ {
		b := vlib.Build(c.Project)
		k := outcomeKey(b)
		if b.Out.Crashed() {
			b.Close()
			return nil // C01's business
		}
		for n, src := range orig.Files {
			if string(c.Project.Files[n]) != string(src) {
				b.Close()
				d := firstDiffPos(string(src), string(c.Project.Files[n]))
				return vlib.V("c06:build-modifies-its-input", "build #%d changed the bytes of %s it was given (at byte %d: %s -> %s): later builds of the same file see another document", i, n, d, around(string(src), d), around(string(c.Project.Files[n]), d))
			}
		}
		js := ""
		if b.Out.OK() {
			j, _ := b.Api.ToJson()
			js = string(j)
			if i == 0 {
				retained = j // the slice itself: later builds and serialisations must leave it alone
			}
		}
		b.Close()
		if i == 0 {
			first, firstJSON = k, js
			// an unrelated project is built and serialised in between: "prior builds" must not show in a later result,
			// nor later builds in an earlier one
			ob := vlib.Build(c06OtherProject)
			if ob.Out.OK() {
				_, _ = ob.Api.ToJson()
				_, _ = ob.Api.ToJsonIndent()
			}
			ob.Close()
			if retained != nil && string(retained) != firstJSON {
				d := firstDiffPos(firstJSON, string(retained))
				return vlib.V("c06:result-overwritten-by-later-build", "the bytes returned by ToJson of build #0 changed while another project was built and serialised (at byte %d):\n returned: %s\n now:      %s", d, around(firstJSON, d), around(string(retained), d))
			}
			continue
		}
		_ = firstJSON
		if k != first {
			detail := ""
			class := c06DiffClass(first, k)
			if strings.HasPrefix(k, "OK") && strings.HasPrefix(first, "OK") && js != "" {
				d := firstDiffPos(firstJSON, js)
				detail = fmt.Sprintf("\n first: %s\n now:   %s", around(firstJSON, d), around(js, d))
				a, e1 := vlib.ParseOrdered([]byte(firstJSON))
				b, e2 := vlib.ParseOrdered([]byte(js))
				if e1 == nil && e2 == nil && a.StripExamples().Canon(false) == b.StripExamples().Canon(false) {
					class = "catalog-example-only"
					if hasRegexType(c.Project) && c06KeepRegexTypeExamples(a).Canon(false) == c06KeepRegexTypeExamples(b).Canon(false) {
						class = "catalog-example-of-schema-using-regex-type"
					}
				}
			}
			class = c06RefineLocationClass(c.Project, class, first, k)
			return vlib.V("c06:in-process:"+class, "build #%d differs from build #0 of the same project:\n #0: %s\n #%d: %s%s", i, pretty(first), i, pretty(k), detail)
		}
	}
	// the same file paths with other content before: a project of several files is written to a directory in which
	// another version of it (one included file replaced) has just been built - nothing of that build may show
	if len(c.Project.Files) > 1 && !c.Project.NoRoot {
		other := c.Project.Clone()
		for _, n := range other.Names() {
			if n != other.Root {
				other.Files[n] = []byte("# another version of this file\nTYPE @zzFromAnotherVersion\n  1\n")
				break
			}
		}
		other.FixedDir = "c06"
		ob := vlib.Build(other)
		if ob.Out.OK() {
			_, _ = ob.Api.ToJson()
		}
		// (not closed: the directory is reused, emptied and rewritten by the next build)
		same := c.Project.Clone()
		same.FixedDir = "c06"
		sb := vlib.Build(same)
		k := outcomeKey(sb)
		sb.Close()
		if !sb.Out.Crashed() && k != first {
			class := c06RefineLocationClass(c.Project, c06DiffClass(first, k), first, k)
			return vlib.V("c06:after-another-version-at-the-same-paths:"+class, "built in a directory where another version of the project had been built before:\n fresh directory: %s\n same paths:      %s", pretty(first), pretty(k))
		}
	}
	// fresh process
	_, info := vlib.SharedIso().Run(c)
	otherJSON := ""
	if i := strings.IndexByte(info, 1); i >= 0 {
		otherJSON, _ = strconv.Unquote(info[i+1:])
		info = info[:i]
	}
	if info != "" && info != first && !strings.HasPrefix(info, "CRASH") {
		class := c06DiffClass(first, info)
		if otherJSON != "" && firstJSON != "" {
			a, e1 := vlib.ParseOrdered([]byte(firstJSON))
			b, e2 := vlib.ParseOrdered([]byte(otherJSON))
			if e1 == nil && e2 == nil && a.StripExamples().Canon(false) == b.StripExamples().Canon(false) {
				class = "catalog-example-only"
				if hasRegexType(c.Project) && c06KeepRegexTypeExamples(a).Canon(false) == c06KeepRegexTypeExamples(b).Canon(false) {
					class = "catalog-example-of-schema-using-regex-type"
				}
			}
		}
		class = c06RefineLocationClass(c.Project, class, first, info)
		return vlib.V("c06:fresh-process:"+class, "a build in a fresh process differs:\n here:  %s\n there: %s", pretty(first), pretty(info))
	}
	return nil
}

var c06LocRe = regexp.MustCompile(`file="([^"]*)" index=(\d+) line=(\d+)`)

// c06RefineLocationClass: two builds report the same message at two places.  When the two places lie in the bodies of two
// different TYPE directives, several user types are faulty and the schema library reports whichever its iteration over the
// type list (a Go map) meets first - the class says so, it is the signature of the open finding N7.
func c06RefineLocationClass(p *vlib.Project, class, a, b string) string {
	if !strings.HasPrefix(class, "error-location:") && !strings.HasPrefix(class, "error-message:") {
		return class
	}
	ma, mb := c06LocRe.FindStringSubmatch(a), c06LocRe.FindStringSubmatch(b)
	if ma == nil || mb == nil {
		return class
	}
	la, _ := strconv.Atoi(ma[3])
	lb, _ := strconv.Atoi(mb[3])
	ta, tb := c06TypeBlockAt(p, ma[1], la), c06TypeBlockAt(p, mb[1], lb)
	if ta != "" && tb != "" && ta != tb {
		// (each faulty type has its own message: `Duplicate key "@key"` in one, `Duplicate key "p0"` in the other)
		return "error-location-among-faulty-types:" + strings.TrimPrefix(strings.TrimPrefix(class, "error-location:"), "error-message:")
	}
	return class
}

// c06TypeBlockAt names the TYPE directive (file:line of its keyword) whose block holds the given line, "" if the line
// belongs to another kind of root directive.  The directive tree of the project is read through the verif accessors.
func c06TypeBlockAt(p *vlib.Project, file string, line int) string {
	q := p.Clone()
	q.Banned = nil
	c, out, dir, done := vlib.BuildCore(q)
	defer done()
	if c == nil || out.Crashed() {
		return ""
	}
	pl := vlib.WithPlayground(p)
	best, bestLine, bestType := "", 0, false
	for _, d := range c.VerifDirectives() {
		f := vlib.RelName(d.VerifKeywordFile(), dir)
		if f != file {
			continue
		}
		l := vlib.LineOf(pl.Files[f], int(d.VerifKeywordBegin()))
		if l <= line && l >= bestLine {
			best, bestLine, bestType = fmt.Sprintf("%s:%d", f, l), l, d.Type() == directive.Type
		}
	}
	if !bestType {
		return ""
	}
	return best
}

// c06KeepRegexTypeExamples blanks every example but the regex user types' own: finding N5 is about the examples of
// schemas that *use* a regex type; the example a regex type shows for itself is drawn once and must not change.
func c06KeepRegexTypeExamples(n *vlib.ON) *vlib.ON {
	keep := map[string]bool{}
	if ut := n.Get("userTypes"); ut.IsObj() {
		for i, k := range ut.Keys {
			if sc := ut.Vals[i].Get("schema"); sc.IsObj() && sc.S("notation") == "regex" {
				keep[k] = true
			}
		}
	}
	return n.MapStrings(func(path []string, s string) string {
		if len(path) > 0 && path[len(path)-1] == "example" {
			if len(path) == 4 && path[0] == "userTypes" && path[2] == "schema" && keep[path[1]] {
				return s
			}
			return ""
		}
		return s
	})
}

func pretty(k string) string { return strings.ReplaceAll(k, "\x00", " | ") }

func c06DiffClass(a, b string) string {
	ka, kb := strings.SplitN(strings.SplitN(a, " ", 2)[0], "\x00", 2)[0], strings.SplitN(strings.SplitN(b, " ", 2)[0], "\x00", 2)[0]
	if ka != kb {
		return ka + "-vs-" + kb
	}
	if strings.HasPrefix(a, "ERR\x00") && strings.HasPrefix(b, "ERR\x00") {
		pa, pb := strings.SplitN(a, "\x00", 3), strings.SplitN(b, "\x00", 3)
		ma, _ := strconv.Unquote(pa[1])
		if pa[1] != pb[1] {
			return "error-message:" + errClass(ma)
		}
		return "error-location:" + errClass(ma)
	}
	return "catalog-bytes"
}

func c06Classify(c *vlib.Case) (bool, []string) {
	b := vlib.Build(c.Project)
	defer b.Close()
	switch {
	case b.Out.OK():
		js, _ := b.Api.ToJson()
		doc, err := vlib.ParseOrdered(js)
		nt := false
		if err == nil {
			for _, k := range []string{"userTypes", "userEnums", "interactions", "tags", "servers"} {
				if s := doc.Get(k); s != nil && len(s.Keys) >= 2 {
					nt = true
				}
			}
		}
		return nt, []string{"accepted"}
	case b.Out.Err():
		f, _ := c.Params["faults"].(float64)
		if fi, ok := c.Params["faults"].(int); ok {
			f = float64(fi)
		}
		cls := []string{"rejected", "err:" + errClass(b.Out.Msg)}
		if f >= 2 {
			cls = append(cls, "multi-fault")
		}
		return f >= 2, cls
	}
	return false, []string{"crashed"}
}

// genMultiFault assembles a document with several independent faults so that "which error comes first" is exercised.
func genMultiFault(r vlib.Rnd) ([]byte, int) {
	var sb strings.Builder
	sb.WriteString("JSIGHT 0.3\n")
	faults := 0
	n := 2 + r.Intn(4)
	for i := 0; i < n; i++ {
		switch r.Intn(15) {
		case 12: // a path repeating several parameters
			fmt.Fprintf(&sb, "GET /o%d/{owner}/c/{cat}/f/{owner}/t/{cat}/u/{x}/{x}\n  200 any\n", i)
			faults++
		case 13: // several undefined tags / types on one directive
			fmt.Fprintf(&sb, "GET /mt%d\n  Tags @zz%d @yy%d @xx%d\n  200\n    {\"a\": @ua%d, \"b\": @ub%d, \"c\": @uc%d}\n", i, i, i, i, i, i, i)
			faults++
		case 14: // long multi-line Description (CRLF handled by the caller's line-ending conversion)
			fmt.Fprintf(&sb, "GET /d%d\n  Description\n    first line\n    second line\n\n    third line\n    fourth line\n    fifth line\n    sixth line\n    seventh line\n  200 any\n", i)
		case 0: // self-pasting macro
			fmt.Fprintf(&sb, "MACRO @sm%d\n  200 any\n  PASTE @sm%d\n", i, i)
			faults++
		case 1: // nameless PASTE inside macro
			fmt.Fprintf(&sb, "MACRO @nm%d\n  200 any\n  PASTE\n", i)
			faults++
		case 2: // macro cycle
			fmt.Fprintf(&sb, "MACRO @ca%d\n  PASTE @cb%d\nMACRO @cb%d\n  PASTE @ca%d\n", i, i, i, i)
			faults++
		case 3: // Path with unused properties
			fmt.Fprintf(&sb, "GET /p%d/{id}\n  Path\n    {\n      \"id\": 1,\n      \"x%d\": 1,\n      \"y%d\": 2,\n      \"z%d\": 3\n    }\n  200 any\n", i, i, i, i)
			faults++
		case 4: // undefined type
			fmt.Fprintf(&sb, "TYPE @u%d\n  {\"a\": @undef%d}\n", i, i)
			faults++
		case 5: // type with undefined type inside an or, in a recursive group
			if r.Intn(2) == 0 {
				fmt.Fprintf(&sb, "TYPE @ra%d\n  {\"a\": @rb%d}\nTYPE @rb%d\n  {\"b\": @nope%d | @ra%d}\n", i, i, i, i, i)
			} else {
				fmt.Fprintf(&sb, "TYPE @ra%d\n{\n  \"a\": @rb%d\n}\nTYPE @rb%d\n{\n  \"b\": @nope%d | @rc%d\n}\nTYPE @rc%d\n{\n  \"c\": @rb%d\n}\n", i, i, i, i, i, i, i)
			}
			faults++
		case 6: // enum with bad value used by a type
			fmt.Fprintf(&sb, "ENUM @e%d\n  [1, 2]\nTYPE @te%d\n  {\"k\": 3 // {enum: @e%d}\n  }\n", i, i, i)
			faults++
		case 7: // duplicate type
			fmt.Fprintf(&sb, "TYPE @d%d\n  1\nTYPE @d%d\n  2\n", i, i)
			faults++
		case 8: // undefined tag
			fmt.Fprintf(&sb, "GET /t%d\n  Tags @nt%d\n  200 any\n", i, i)
			faults++
		case 9: // valid filler
			fmt.Fprintf(&sb, "TYPE @ok%d\n  {\"a\": 1}\nGET /ok%d\n  200 @ok%d\n", i, i, i)
		case 10: // rule mismatch
			fmt.Fprintf(&sb, "TYPE @rm%d\n  {\"a\": 5 // {min: 10}\n  }\n", i)
			faults++
		case 11: // allOf override
			fmt.Fprintf(&sb, "TYPE @ba%d\n  {\"x\": 1}\nTYPE @ov%d\n  { // {allOf: \"@ba%d\"}\n    \"x\": 2\n  }\nGET /ov%d\n  200 @ov%d\n", i, i, i, i, i)
			faults++
		}
	}
	return []byte(sb.String()), faults
}

// c06ValidatePhase: documents whose only faults are found by the checks made on the finished catalog (an empty INFO, a
// Request or a response that has Headers and no body, Headers that are not an object), several of them in one document,
// rebuilt 80 times: which of the faults is reported must not depend on anything but the document.
var c06ValidatePhase = &vlib.Check{
	Prop: "C06", Name: "validate-phase", Quick: 64, Thorough: 4000,
	Oracle: c06Oracle, Classify: c06Classify,
	Gen: func(t *rapid.T) *vlib.Case {
		r := vlib.RapidRnd{T: t}
		var sb strings.Builder
		sb.WriteString("JSIGHT 0.3\n")
		n := 2 + r.Intn(3)
		faults := 0
		info := false
		for i := 0; i < n; i++ {
			switch k := r.Intn(6); {
			case k == 0 && !info:
				sb.WriteString("INFO\n")
				info = true
				faults++
			case k <= 1:
				fmt.Fprintf(&sb, "POST /rq%d\n  Request\n    Headers\n      {\"h\": 1}\n  200 any\n", i)
				faults++
			case k == 2:
				fmt.Fprintf(&sb, "GET /rs%d\n  200\n    Headers\n      {\"h\": 1}\n", i)
				faults++
			case k == 3:
				fmt.Fprintf(&sb, "GET /hs%d\n  200\n    Headers\n      @arr\n    Body any\n", i)
				faults++
			case k == 4:
				fmt.Fprintf(&sb, "PUT /hq%d\n  Request\n    Headers\n      @arr\n    Body any\n  200 any\n", i)
				faults++
			default:
				fmt.Fprintf(&sb, "GET /ok%d\n  200 any\n", i)
			}
		}
		sb.WriteString("TYPE @arr\n  [1]\n")
		return &vlib.Case{Project: vlib.SingleFile([]byte(sb.String())), Params: map[string]any{"faults": faults, "repeats": 80}}
	},
}

var c06Stream = &vlib.Check{
	Prop: "C06", Name: "repeat", Quick: 5000, Thorough: 320000,
	Oracle: c06Oracle, Inner: c06Inner, Classify: c06Classify,
	Gen: func(t *rapid.T) *vlib.Case {
		r := vlib.RapidRnd{T: t}
		switch r.Intn(6) {
		case 5:
			// valid documents with long multi-line descriptions under every line-ending convention (the text is normalised
			// from the source bytes on every build)
			var sb strings.Builder
			sb.WriteString("JSIGHT 0.3\nINFO\n  Title \"t\"\n  Description\n")
			n := 5 + r.Intn(8)
			for i := 0; i < n; i++ {
				sb.WriteString("    " + strings.Repeat("  ", r.Intn(2)) + vlib.Pick(r, []string{"first line", "second line here", "x", "a longer line of text", ""}) + "\n")
			}
			sb.WriteString("    last line\n")
			k := 1 + r.Intn(3)
			for i := 0; i < k; i++ {
				fmt.Fprintf(&sb, "GET /d%d\n  Description\n    one\n    two\n\n    three\n    four\n    five\n    six\n    seven\n  200 any\n", i)
			}
			return &vlib.Case{Project: vlib.SingleFile(toEOL([]byte(sb.String()), r))}
		case 0, 1:
			doc, f := genMultiFault(r)
			return &vlib.Case{Project: vlib.SingleFile(toEOL(doc, r)), Params: map[string]any{"faults": f}}
		case 2:
			if genModelDoc != nil && vlib.Chance(r, 1, 2) {
				return &vlib.Case{Project: genModelDoc(r)}
			}
			return &vlib.Case{Project: genAccepted(r)}
		default:
			return &vlib.Case{Project: genCandidate(r)}
		}
	},
}

// c06Concurrent: "... or concurrently with other builds".  Several projects are built once each, alone; then all of them
// are built again and again by as many goroutines at the same time; every result has to be the one the project gave alone.
// (No race detector here - that is C18's tool; this compares results.)
var c06Concurrent = &vlib.Check{
	Prop: "C06", Name: "concurrent-builds", Quick: 120, Thorough: 8000,
	Oracle: func(c *vlib.Case) *vlib.Violation {
		docs, _ := c.Params["docs"].([]any)
		var projects []*vlib.Project
		for _, d := range docs {
			s, _ := d.(string)
			projects = append(projects, vlib.SingleFile([]byte(s)))
		}
		if len(projects) < 2 {
			return nil
		}
		// key and (for accepted projects) the catalog itself, so that a difference can be classified
		build := func(p *vlib.Project) (string, string) {
			b := vlib.Build(p)
			defer b.Close()
			k := outcomeKey(b)
			js := ""
			if b.Out.OK() {
				if j, err := b.Api.ToJson(); err == nil {
					js = string(j)
				}
			}
			return k, js
		}
		alone, aloneJS := make([]string, len(projects)), make([]string, len(projects))
		for i, p := range projects {
			alone[i], aloneJS[i] = build(p)
			if strings.HasPrefix(alone[i], "CRASH") {
				return nil
			}
			// a result that is not stable even alone is the business of the repeat check (and of its open findings)
			if k2, _ := build(p); k2 != alone[i] {
				return nil
			}
		}
		rounds := 12
		got, gotJS := make([][]string, len(projects)), make([][]string, len(projects))
		var wg sync.WaitGroup
		start := make(chan struct{})
		for i := range projects {
			wg.Add(1)
			go func(i int) {
				defer wg.Done()
				<-start
				for k := 0; k < rounds; k++ {
					key, js := build(projects[i])
					got[i], gotJS[i] = append(got[i], key), append(gotJS[i], js)
				}
			}(i)
		}
		close(start)
		wg.Wait()
		for i := range projects {
			for k, g := range got[i] {
				if g != alone[i] {
					class := c06RefineLocationClass(projects[i], c06DiffClass(alone[i], g), alone[i], g)
					if aloneJS[i] != "" && gotJS[i][k] != "" {
						a, e1 := vlib.ParseOrdered([]byte(aloneJS[i]))
						b, e2 := vlib.ParseOrdered([]byte(gotJS[i][k]))
						if e1 == nil && e2 == nil && a.StripExamples().Canon(false) == b.StripExamples().Canon(false) {
							class = "catalog-example-only"
							if hasRegexType(projects[i]) && c06KeepRegexTypeExamples(a).Canon(false) == c06KeepRegexTypeExamples(b).Canon(false) {
								class = "catalog-example-of-schema-using-regex-type" // (open finding N5: not an effect of the concurrency)
							}
						}
					}
					return vlib.V("c06:concurrent:"+class, "project %d of %d, build %d made while the others were being built, differs from the build made alone:\n alone:      %s\n concurrent: %s", i, len(projects), k, pretty(alone[i]), pretty(g))
				}
			}
		}
		return nil
	},
	Gen: func(t *rapid.T) *vlib.Case {
		r := vlib.RapidRnd{T: t}
		n := 3 + r.Intn(5)
		var docs []any
		for len(docs) < n {
			var p *vlib.Project
			switch r.Intn(4) {
			case 0:
				p = vlib.SingleFile(genPathFamily(r))
			case 1:
				if genModelDoc != nil {
					p = genModelDoc(r)
				}
			case 2:
				doc, _ := genMultiFault(r)
				p = vlib.SingleFile(doc)
			}
			if p == nil {
				p = genAccepted(r)
			}
			if len(p.Files) != 1 || len(p.RootBytes()) > 6000 || strings.ToValidUTF8(string(p.RootBytes()), "") != string(p.RootBytes()) {
				continue
			}
			docs = append(docs, string(p.RootBytes()))
		}
		return &vlib.Case{Project: vlib.SingleFile([]byte(docs[0].(string))), Params: map[string]any{"docs": docs}}
	},
	Classify: func(c *vlib.Case) (bool, []string) {
		docs, _ := c.Params["docs"].([]any)
		return len(docs) >= 4, []string{fmt.Sprintf("projects-%d", len(docs))}
	},
	SampleOf: func(c *vlib.Case) any {
		docs, _ := c.Params["docs"].([]any)
		return map[string]any{"projects": len(docs), "first": clip(c.Project.RootBytes(), 200)}
	},
}

var c06Corpus = &vlib.Check{Prop: "C06", Name: "corpus", Oracle: c06Oracle, Inner: c06Inner, Classify: c06Classify}

func init() { vlib.Register(c06Stream, c06Corpus, c06Concurrent, c06ValidatePhase) }

func TestC06(t *testing.T) {
	if vlib.Shard() == 0 {
		t.Run("corpus", func(t *testing.T) { c06Corpus.RunEnum(t, corpusEnum()) })
	}
	t.Run("repeat", c06Stream.Run)
	t.Run("validate-phase", c06ValidatePhase.Run)
	t.Run("concurrent-builds", c06Concurrent.Run)
}
