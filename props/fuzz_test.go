package props

import (
	"os"
	"testing"

	"verif/vlib"
)

// Native coverage-guided fuzz targets (thorough tiers only; Go's fuzzer cannot be pinned to a seed, so a crasher is the
// reproducible unit: the driver converts it into a replay file).  Every target puts the property's semantic oracle inside
// the target; known-finding exclusions apply as in the rapid checks.

func fuzzSeeds(f *testing.F) {
	loadSeeds()
	for _, s := range synthSeeds {
		f.Add([]byte(s))
	}
	for i, d := range seedSmall {
		if i%3 == 0 {
			f.Add(d)
		}
	}
	for _, s := range []string{"(", "INCLUDE \"\"", "GET /a /*/", "TYPE @a\n/", "JSIGHT 0.3\nENUM @e\n  [\"\", \"x\"]/*", "\x00", "\xff\xfe", "JSIGHT 0.3\r\nGET /a\r\n\t200 any\r"} {
		f.Add([]byte(s))
	}
}

func fuzzWith(f *testing.F, ck *vlib.Check) {
	fuzzSeeds(f)
	f.Fuzz(func(t *testing.T, data []byte) {
		if len(data) > 8192 {
			return
		}
		c := &vlib.Case{Project: vlib.SingleFile(data)}
		if v := ck.Handle(c); v != nil {
			vlib.SaveFailure(c, v)
			t.Fatalf("VERIF-FUZZ-FAIL property=%s check=%s\n%s", ck.Prop, ck.Name, v)
		}
	})
	if os.Getenv("VERIF_OUT") != "" {
		vlib.FlushAll()
	}
}

// in-process variant of the C01 oracle (a fatal runtime error would end the campaign: the rapid tier keeps the isolated
// worker for that; here panics are recovered)
var c01Fuzz = &vlib.Check{Prop: "C01", Name: "fuzz", Classify: c01Classify,
	Oracle: func(c *vlib.Case) *vlib.Violation { v, _ := c01Inner(c); return v }}

func init() { vlib.Register(c01Fuzz) }

func FuzzC01(f *testing.F) { fuzzWith(f, c01Fuzz) }
func FuzzC04(f *testing.F) { fuzzWith(f, c04Stream) }
func FuzzC05(f *testing.F) { fuzzWith(f, c05Stream) }
func FuzzC07(f *testing.F) { fuzzWith(f, c07Stream) }
func FuzzC12(f *testing.F) { fuzzWith(f, c12Bytes) }
func FuzzC16(f *testing.F) {
	fuzzSeeds(f)
	f.Fuzz(func(t *testing.T, data []byte) {
		if len(data) > 8192 {
			return
		}
		c := &vlib.Case{Project: vlib.SingleFile(data), Ops: []string{"ToJson", "ToOpenAPIJson", "ToJsonIndent", "ToJson", "ToOpenAPIJsonIndent", "ToOpenAPIJson"}}
		if v := c16Machine.Handle(c); v != nil {
			vlib.SaveFailure(c, v)
			t.Fatalf("VERIF-FUZZ-FAIL property=C16 check=histories\n%s", v)
		}
	})
}
func FuzzC17(f *testing.F) { fuzzWith(f, c17Stream) }
