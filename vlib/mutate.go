package vlib

import (
	"bytes"
	"regexp"
	"strings"
)

// Dict is the hostile-constant dictionary for token-level mutation.
var Dict = []string{
	"JSIGHT", "INFO", "Title", "Version", "Description", "SERVER", "BaseUrl", "URL", "GET", "POST", "PUT", "PATCH", "DELETE",
	"Body", "Request", "Path", "Headers", "Query", "TYPE", "ENUM", "MACRO", "PASTE", "INCLUDE", "Protocol", "Method", "Params", "Result",
	"TAG", "Tags", "OperationId", "200", "404", "599", "100", "600", "099",
	"(", ")", "//", "/*", "*/", "/*/", "#", "###", "@a", "@b", "@cat", "\"", "\\", "/", "{", "}", "[", "]", " ", "\n", "\r\n", "\r", "\t", "\x00", "\xff", "\xc3",
	"any", "empty", "regex", "jsight", "json-rpc-2.0", "0.3", "/a", "/a/{id}", "/{id}", "{id}", "htmlFormEncoded", "noFormat",
	"{\"id\": 1}", "[@a]", "@a | @b", "// {optional: true}", "// {type: \"@a\"}", "// {allOf: \"@a\"}", "// {enum: @e}", "// {or: [\"@a\", \"@b\"]}",
	"@a|@b", "@a  |  @b", "// {allOf: \"@a\"}", "201\n", "404\n", "// {min: 1200}", "// {or: [\"uuid\",\"email\"], nullable:false}", "// {or: [\"@a\", \"string\"]}", "// {nullable: true}", "// {additionalProperties: \"@a\"}", "// {additionalProperties: true}", "// {type: \"\"}", "// {type: \"mixed\"}", "// {const: true}", "// {regex: \"[a-\"}", "{\"@a\": 1}", "[1, \"x\"]", "\"str\"", "12.50", "null", "true",
	"/ab+/", "/[a-/", "/\\d+/", "inc.jst", "sub/inc2.jst", "\"\"", "..", ".", "a.jst", "self.jst", "empty.jst", "resp.jst", "sub", "nope.jst",
	"\n  200 any\n", "\nGET /x\n  200 any\n", "\nTYPE @a\n  {}\n", "\nMACRO @m\n  200 any\n", "\nPASTE @m\n", "\nENUM @e\n  [1, 2]\n",
}

var wordRe = regexp.MustCompile(`\S+`)

// Mutate applies 1..4 random edits.  seeds provides cross-over material.
func Mutate(r Rnd, seeds [][]byte, in []byte, maxLen int) []byte {
	b := append([]byte{}, in...)
	n := 1 + r.Intn(4)
	for i := 0; i < n; i++ {
		switch r.Intn(14) {
		case 0: // replace byte
			if len(b) > 0 {
				b[r.Intn(len(b))] = byte(r.Intn(256))
			}
		case 1: // delete range
			if len(b) > 1 {
				a := r.Intn(len(b))
				l := 1 + r.Intn(8)
				if a+l > len(b) {
					l = len(b) - a
				}
				b = append(b[:a:a], b[a+l:]...)
			}
		case 2, 3, 4: // insert dict token
			a := r.Intn(len(b) + 1)
			tok := Dict[r.Intn(len(Dict))]
			b = splice(b, a, a, []byte(tok))
		case 5: // duplicate line
			lines := strings.SplitAfter(string(b), "\n")
			if len(lines) > 0 {
				k := r.Intn(len(lines))
				at := r.Intn(len(lines) + 1)
				nl := append([]string{}, lines[:at]...)
				nl = append(nl, lines[k])
				nl = append(nl, lines[at:]...)
				b = []byte(strings.Join(nl, ""))
			}
		case 6: // delete line
			lines := strings.SplitAfter(string(b), "\n")
			if len(lines) > 1 {
				k := r.Intn(len(lines))
				lines = append(lines[:k:k], lines[k+1:]...)
				b = []byte(strings.Join(lines, ""))
			}
		case 7: // swap lines
			lines := strings.SplitAfter(string(b), "\n")
			if len(lines) > 1 {
				i, j := r.Intn(len(lines)), r.Intn(len(lines))
				lines[i], lines[j] = lines[j], lines[i]
				b = []byte(strings.Join(lines, ""))
			}
		case 8: // truncate
			if len(b) > 0 {
				b = b[:r.Intn(len(b))]
			}
		case 9: // splice from another seed
			if len(seeds) > 0 {
				o := seeds[r.Intn(len(seeds))]
				if len(o) > 0 {
					a := r.Intn(len(o))
					l := r.Intn(len(o) - a + 1)
					if l > 400 {
						l = 400
					}
					at := r.Intn(len(b) + 1)
					b = splice(b, at, at, o[a:a+l])
				}
			}
		case 10, 11: // replace a word with a dict token
			words := wordRe.FindAllIndex(b, -1)
			if len(words) > 0 {
				w := words[r.Intn(len(words))]
				tok := Dict[r.Intn(len(Dict))]
				b = splice(b, w[0], w[1], []byte(tok))
			}
		case 12: // newline / indentation conversions
			switch r.Intn(3) {
			case 0:
				b = bytes.ReplaceAll(b, []byte("\n"), []byte("\r\n"))
			case 1:
				b = bytes.ReplaceAll(b, []byte("\n"), []byte("\r"))
			case 2:
				b = bytes.ReplaceAll(b, []byte("  "), []byte("\t"))
			}
		case 13: // move a line block
			lines := strings.SplitAfter(string(b), "\n")
			if len(lines) > 2 {
				a := r.Intn(len(lines))
				l := 1 + r.Intn(3)
				if a+l > len(lines) {
					l = len(lines) - a
				}
				blk := append([]string{}, lines[a:a+l]...)
				rest := append(append([]string{}, lines[:a]...), lines[a+l:]...)
				at := r.Intn(len(rest) + 1)
				nl := append(append(append([]string{}, rest[:at]...), blk...), rest[at:]...)
				b = []byte(strings.Join(nl, ""))
			}
		}
	}
	if len(b) > maxLen {
		b = b[:maxLen]
	}
	return b
}

func splice(b []byte, from, to int, ins []byte) []byte {
	out := make([]byte, 0, len(b)+len(ins))
	out = append(out, b[:from]...)
	out = append(out, ins...)
	out = append(out, b[to:]...)
	return out
}
