package vlib

import (
	"fmt"
	"regexp"
	"strings"
)

// JDoc Exchange 2.0.0 shape and cross-reference validators (C04, C05).  They are written from the JDoc Exchange
// description (top-level keys, required fields per entity, typing of content nodes), not from the emitter.

var (
	jdocTopOrder   = []string{"tags", "info", "servers", "userTypes", "userEnums", "interactions", "jsight", "jdocExchangeVersion"}
	jdocNotations  = map[string]bool{"jsight": true, "regex": true, "any": true, "empty": true}
	jdocScalarTok  = map[string]bool{"string": true, "number": true, "boolean": true, "null": true, "reference": true}
	jdocRuleTok    = map[string]bool{"object": true, "array": true, "string": true, "number": true, "boolean": true, "null": true, "annotation": true, "reference": true}
	jdocFormats    = map[string]bool{"json": true, "plainString": true, "binary": true}
	jdocQueryFmt   = map[string]bool{"htmlFormEncoded": true, "noFormat": true}
	jdocHTTPMethod = map[string]bool{"GET": true, "POST": true, "PUT": true, "PATCH": true, "DELETE": true}
	codeRe         = regexp.MustCompile(`^[1-5][0-9][0-9]$`)
)

type shapeErr struct {
	sig, msg string
}

func se(sig, format string, a ...any) *shapeErr { return &shapeErr{sig, fmt.Sprintf(format, a...)} }

func reqStr(o *ON, k, where string) *shapeErr {
	v := o.Get(k)
	if v == nil {
		return se("missing-field:"+k, "%s: required field %q is missing", where, k)
	}
	if v.Kind != 's' {
		return se("field-type:"+k, "%s: field %q is not a string", where, k)
	}
	return nil
}

func optStr(o *ON, k, where string) *shapeErr {
	v := o.Get(k)
	if v != nil && v.Kind != 's' {
		return se("field-type:"+k, "%s: field %q is not a string", where, k)
	}
	return nil
}

func onlyKeys(o *ON, where string, allowed ...string) *shapeErr {
	for _, k := range o.Keys {
		ok := false
		for _, a := range allowed {
			if a == k {
				ok = true
			}
		}
		if !ok {
			return se("unexpected-key:"+k, "%s: unexpected key %q", where, k)
		}
	}
	return nil
}

// JDocShape checks the document shape.  It returns nil or a violation with signature "c04:shape:<rule>".
func JDocShape(doc *ON) *Violation {
	if e := jdocShape(doc); e != nil {
		return V("c04:shape:"+e.sig, "%s", e.msg)
	}
	return nil
}

func jdocShape(doc *ON) *shapeErr {
	if !doc.IsObj() {
		return se("top-not-object", "the document is not a JSON object")
	}
	if p := doc.DupKey(""); p != "" {
		if strings.ContainsRune(p, '\uFFFD') {
			return se("duplicate-key:names-collide-after-utf8-replacement", "a key is emitted twice at %s", p)
		}
		return se("duplicate-key", "a key is emitted twice at %s", p)
	}
	// exact key set and order
	pos := -1
	for _, k := range doc.Keys {
		idx := -1
		for i, a := range jdocTopOrder {
			if a == k {
				idx = i
			}
		}
		if idx < 0 {
			return se("top-extra-key", "unexpected top-level key %q", k)
		}
		if idx <= pos {
			return se("top-key-order", "top-level key %q is out of order (keys: %v)", k, doc.Keys)
		}
		pos = idx
	}
	for _, k := range []string{"tags", "interactions", "jsight", "jdocExchangeVersion"} {
		if !doc.Has(k) {
			return se("top-missing-key:"+k, "top-level key %q is missing", k)
		}
	}
	if doc.S("jdocExchangeVersion") != "2.0.0" {
		return se("exchange-version", "jdocExchangeVersion is %q", doc.S("jdocExchangeVersion"))
	}
	if !doc.Get("jsight").IsStr() {
		return se("field-type:jsight", "jsight is not a string")
	}
	if !doc.Get("tags").IsObj() || !doc.Get("interactions").IsObj() {
		return se("top-section-type", "tags/interactions must be objects")
	}
	if e := shapeTags(doc.Get("tags"), "tags"); e != nil {
		return e
	}
	if info := doc.Get("info"); info != nil {
		if !info.IsObj() {
			return se("info-type", "info is not an object")
		}
		if e := onlyKeys(info, "info", "title", "version", "description"); e != nil {
			return e
		}
		for _, k := range []string{"title", "version", "description"} {
			if e := optStr(info, k, "info"); e != nil {
				return e
			}
		}
	}
	if sv := doc.Get("servers"); sv != nil {
		if !sv.IsObj() || len(sv.Keys) == 0 {
			return se("servers-type", "servers must be a non-empty object when present")
		}
		for i, name := range sv.Keys {
			s := sv.Vals[i]
			w := "servers/" + name
			if !s.IsObj() {
				return se("server-type", "%s is not an object", w)
			}
			if e := onlyKeys(s, w, "baseUrlVariables", "annotation", "baseUrl"); e != nil {
				return e
			}
			if e := reqStr(s, "baseUrl", w); e != nil {
				return e
			}
			if e := optStr(s, "annotation", w); e != nil {
				return e
			}
		}
	}
	if ut := doc.Get("userTypes"); ut != nil {
		if !ut.IsObj() || len(ut.Keys) == 0 {
			return se("userTypes-type", "userTypes must be a non-empty object when present")
		}
		for i, name := range ut.Keys {
			t := ut.Vals[i]
			w := "userTypes/" + name
			if !t.IsObj() {
				return se("userType-type", "%s is not an object", w)
			}
			if e := onlyKeys(t, w, "annotation", "description", "schema"); e != nil {
				return e
			}
			if e := optStr(t, "annotation", w); e != nil {
				return e
			}
			if e := optStr(t, "description", w); e != nil {
				return e
			}
			if e := shapeSchema(t.Get("schema"), w+"/schema"); e != nil {
				return e
			}
		}
	}
	if ue := doc.Get("userEnums"); ue != nil {
		if !ue.IsObj() || len(ue.Keys) == 0 {
			return se("userEnums-type", "userEnums must be a non-empty object when present")
		}
		for i, name := range ue.Keys {
			t := ue.Vals[i]
			w := "userEnums/" + name
			if !t.IsObj() {
				return se("userEnum-type", "%s is not an object", w)
			}
			if e := onlyKeys(t, w, "annotation", "description", "value"); e != nil {
				return e
			}
			if e := reqStr(t, "annotation", w); e != nil {
				return e
			}
			if e := reqStr(t, "description", w); e != nil {
				return e
			}
			v := t.Get("value")
			if !v.IsObj() {
				return se("missing-field:value", "%s: value is missing", w)
			}
			if v.S("tokenType") != "array" {
				return se("enum-value-type", "%s: value.tokenType is %q, want array", w, v.S("tokenType"))
			}
			if e := shapeRule(v, w+"/value", false); e != nil {
				return e
			}
		}
	}
	ii := doc.Get("interactions")
	for i, key := range ii.Keys {
		if e := shapeInteraction(ii.Vals[i], "interactions/"+key); e != nil {
			return e
		}
	}
	return nil
}

func shapeTags(tags *ON, where string) *shapeErr {
	for i, name := range tags.Keys {
		t := tags.Vals[i]
		w := where + "/" + name
		if !t.IsObj() {
			return se("tag-type", "%s is not an object", w)
		}
		if e := onlyKeys(t, w, "children", "name", "title", "description", "interactionGroups"); e != nil {
			return e
		}
		if e := reqStr(t, "name", w); e != nil {
			return e
		}
		if e := reqStr(t, "title", w); e != nil {
			return e
		}
		if e := optStr(t, "description", w); e != nil {
			return e
		}
		if t.S("name") != name {
			return se("tag-name-key", "%s: name %q differs from its key", w, t.S("name"))
		}
		g := t.Get("interactionGroups")
		if !g.IsArr() {
			return se("missing-field:interactionGroups", "%s: interactionGroups is missing or not an array", w)
		}
		for _, grp := range g.Vals {
			if !grp.IsObj() {
				return se("tag-group-type", "%s: group is not an object", w)
			}
			if p := grp.S("protocol"); p != "http" && p != "json-rpc-2.0" {
				return se("tag-group-protocol", "%s: group protocol %q", w, p)
			}
			l := grp.Get("interactions")
			if !l.IsArr() {
				return se("missing-field:interactions", "%s: group has no interactions array", w)
			}
			for _, id := range l.Vals {
				if !id.IsStr() {
					return se("tag-group-id-type", "%s: interaction id is not a string", w)
				}
			}
		}
		if ch := t.Get("children"); ch != nil {
			if !ch.IsObj() {
				return se("tag-children-type", "%s: children is not an object", w)
			}
			if e := shapeTags(ch, w+"/children"); e != nil {
				return e
			}
		}
	}
	return nil
}

func shapeInteraction(it *ON, w string) *shapeErr {
	if !it.IsObj() {
		return se("interaction-type", "%s is not an object", w)
	}
	for _, k := range []string{"id", "protocol", "path"} {
		if e := reqStr(it, k, w); e != nil {
			return e
		}
	}
	tg := it.Get("tags")
	if !tg.IsArr() {
		return se("missing-field:tags", "%s: tags is missing or not an array", w)
	}
	for _, t := range tg.Vals {
		if !t.IsStr() {
			return se("field-type:tags", "%s: tag name is not a string", w)
		}
	}
	if e := optStr(it, "annotation", w); e != nil {
		return e
	}
	if e := optStr(it, "description", w); e != nil {
		return e
	}
	switch it.S("protocol") {
	case "http":
		if e := onlyKeys(it, w, "id", "protocol", "httpMethod", "path", "pathVariables", "tags", "annotation", "description", "query", "request", "responses"); e != nil {
			return e
		}
		if e := reqStr(it, "httpMethod", w); e != nil {
			return e
		}
		if !jdocHTTPMethod[it.S("httpMethod")] {
			return se("http-method", "%s: httpMethod %q", w, it.S("httpMethod"))
		}
		if pv := it.Get("pathVariables"); pv != nil {
			if !pv.IsObj() {
				return se("pathVariables-type", "%s: pathVariables is not an object", w)
			}
			if e := shapeSchema(pv.Get("schema"), w+"/pathVariables/schema"); e != nil {
				return e
			}
		}
		if q := it.Get("query"); q != nil {
			if !q.IsObj() {
				return se("query-type", "%s: query is not an object", w)
			}
			if e := onlyKeys(q, w+"/query", "example", "format", "schema"); e != nil {
				return e
			}
			if e := reqStr(q, "format", w+"/query"); e != nil {
				return e
			}
			if !jdocQueryFmt[q.S("format")] {
				return se("query-format", "%s: query format %q", w, q.S("format"))
			}
			if e := optStr(q, "example", w+"/query"); e != nil {
				return e
			}
			if e := shapeSchema(q.Get("schema"), w+"/query/schema"); e != nil {
				return e
			}
		}
		if rq := it.Get("request"); rq != nil {
			if !rq.IsObj() {
				return se("request-type", "%s: request is not an object", w)
			}
			if e := onlyKeys(rq, w+"/request", "headers", "body"); e != nil {
				return e
			}
			if rq.Get("body") == nil {
				// (the language requires a body for every Request: a request object without one is incomplete)
				return se("missing-field:request.body", "%s: the request has no body", w)
			}
			if e := shapeHeadersBody(rq, w+"/request", false); e != nil {
				return e
			}
		}
		if rs := it.Get("responses"); rs != nil {
			if !rs.IsArr() {
				return se("responses-type", "%s: responses is not an array", w)
			}
			for i, r := range rs.Vals {
				rw := fmt.Sprintf("%s/responses[%d]", w, i)
				if !r.IsObj() {
					return se("response-type", "%s is not an object", rw)
				}
				if e := onlyKeys(r, rw, "code", "annotation", "headers", "body"); e != nil {
					return e
				}
				if e := reqStr(r, "code", rw); e != nil {
					return e
				}
				if e := optStr(r, "annotation", rw); e != nil {
					return e
				}
				if !r.Has("body") {
					return se("missing-field:body", "%s: response has no body key", rw)
				}
				if e := shapeHeadersBody(r, rw, true); e != nil {
					return e
				}
			}
		}
	case "json-rpc-2.0":
		if e := onlyKeys(it, w, "id", "protocol", "path", "method", "tags", "annotation", "description", "params", "result"); e != nil {
			return e
		}
		if e := reqStr(it, "method", w); e != nil {
			return e
		}
		for _, k := range []string{"params", "result"} {
			if p := it.Get(k); p != nil {
				if !p.IsObj() {
					return se(k+"-type", "%s: %s is not an object", w, k)
				}
				if e := shapeSchema(p.Get("schema"), w+"/"+k+"/schema"); e != nil {
					return e
				}
			}
		}
	default:
		return se("interaction-protocol", "%s: protocol %q", w, it.S("protocol"))
	}
	return nil
}

func shapeHeadersBody(o *ON, w string, bodyMayBeNull bool) *shapeErr {
	if h := o.Get("headers"); h != nil {
		if !h.IsObj() {
			return se("headers-type", "%s: headers is not an object", w)
		}
		if e := shapeSchema(h.Get("schema"), w+"/headers/schema"); e != nil {
			return e
		}
	}
	if b := o.Get("body"); b != nil {
		if b.Kind == 'z' {
			// a response without a body is a C05 matter ("every response has a body"); shape-wise null is not an object
			return se("body-null", "%s: body is null", w)
		}
		if !b.IsObj() {
			return se("body-type", "%s: body is not an object", w)
		}
		if e := onlyKeys(b, w+"/body", "format", "schema"); e != nil {
			return e
		}
		if e := reqStr(b, "format", w+"/body"); e != nil {
			return e
		}
		if !jdocFormats[b.S("format")] {
			return se("body-format", "%s: body format %q", w, b.S("format"))
		}
		if e := shapeSchema(b.Get("schema"), w+"/body/schema"); e != nil {
			return e
		}
		// format and notation must agree
		n := b.Get("schema").S("notation")
		want := map[string]string{"jsight": "json", "regex": "plainString", "any": "binary", "empty": "binary"}[n]
		if b.S("format") != want {
			return se("body-format-notation", "%s: format %q with notation %q", w, b.S("format"), n)
		}
	}
	return nil
}

func shapeSchema(s *ON, w string) *shapeErr {
	if !s.IsObj() {
		return se("missing-field:schema", "%s is missing or not an object", w)
	}
	if e := onlyKeys(s, w, "content", "example", "notation", "usedUserTypes", "usedUserEnums"); e != nil {
		return e
	}
	n := s.S("notation")
	if !jdocNotations[n] {
		return se("schema-notation", "%s: notation %q", w, n)
	}
	for _, k := range []string{"usedUserTypes", "usedUserEnums"} {
		if l := s.Get(k); l != nil {
			if !l.IsArr() || len(l.Vals) == 0 {
				return se("used-list-type", "%s: %s must be a non-empty array when present", w, k)
			}
			seen := map[string]bool{}
			for _, v := range l.Vals {
				if !v.IsStr() {
					return se("used-list-item", "%s: %s item %v", w, k, v.Canon(false))
				}
				if seen[v.Str] {
					return se("used-list-duplicate", "%s: %s lists %q twice", w, k, v.Str)
				}
				seen[v.Str] = true
			}
		}
	}
	if e := optStr(s, "example", w); e != nil {
		return e
	}
	switch n {
	case "jsight":
		c := s.Get("content")
		if !c.IsObj() {
			return se("jsight-no-content", "%s: jsight schema without content", w)
		}
		return shapeContent(c, w+"/content", false, false)
	case "regex":
		if !s.Get("content").IsStr() {
			return se("regex-content", "%s: regex schema content is not a string", w)
		}
		if s.Has("usedUserTypes") || s.Has("usedUserEnums") {
			return se("regex-used-lists", "%s: regex schema with used lists", w)
		}
	default:
		if len(s.Keys) != 1 {
			return se("pseudo-schema-keys", "%s: %s schema carries %v", w, n, s.Keys)
		}
	}
	return nil
}

func shapeContent(c *ON, w string, inObject, inArray bool) *shapeErr {
	if !c.IsObj() {
		return se("content-type", "%s is not an object", w)
	}
	if e := onlyKeys(c, w, "rules", "key", "tokenType", "type", "inheritedFrom", "note", "children", "scalarValue", "isKeyUserTypeRef", "optional"); e != nil {
		return e
	}
	tt := c.S("tokenType")
	if o := c.Get("optional"); o == nil || o.Kind != 'b' {
		return se("content-optional", "%s: optional is missing or not a boolean", w)
	}
	if inObject && !c.Get("key").IsStr() {
		return se("object-child-no-key", "%s: property without key", w)
	}
	if inArray && c.Has("key") {
		return se("array-item-has-key", "%s: array item with key", w)
	}
	if !inObject && !inArray && c.Has("key") {
		return se("root-has-key", "%s: root node with key", w)
	}
	for _, k := range []string{"type", "inheritedFrom", "note"} {
		if e := optStr(c, k, w); e != nil {
			return e
		}
	}
	if r := c.Get("rules"); r != nil {
		if !r.IsArr() || len(r.Vals) == 0 {
			return se("rules-type", "%s: rules must be a non-empty array when present", w)
		}
		for i, rule := range r.Vals {
			rw := fmt.Sprintf("%s/rules[%d]", w, i)
			if k := rule.S("key"); rule.IsObj() && !jsightRuleNames[k] {
				// a node's rules are the rules of the JSight schema language, not constraints invented by a compiler pass
				if strings.Contains(w, "/pathVariables/") {
					return se("pathVariables-pseudo-rule:"+k, "%s: %q is not a rule of the schema language (tokenType %q)", rw, k, rule.S("tokenType"))
				}
				return se("rule-name", "%s: %q is not a rule of the schema language (tokenType %q)", rw, k, rule.S("tokenType"))
			}
			if e := shapeRule(rule, rw, true); e != nil {
				return e
			}
		}
	}
	switch tt {
	case "object", "array":
		ch := c.Get("children")
		if !ch.IsArr() {
			return se("container-no-children", "%s: %s without children array", w, tt)
		}
		if c.Has("scalarValue") {
			return se("container-has-scalar", "%s: %s with scalarValue", w, tt)
		}
		for i, x := range ch.Vals {
			if e := shapeContent(x, fmt.Sprintf("%s/children[%d]", w, i), tt == "object", tt == "array"); e != nil {
				return e
			}
		}
	default:
		if !jdocScalarTok[tt] {
			return se("content-tokenType", "%s: tokenType %q", w, tt)
		}
		if !c.Get("scalarValue").IsStr() {
			return se("scalar-no-value", "%s: %s without scalarValue", w, tt)
		}
		if c.Has("children") {
			return se("scalar-has-children", "%s: %s with children", w, tt)
		}
	}
	return nil
}

var jsightRuleNames = map[string]bool{"minLength": true, "maxLength": true, "min": true, "max": true, "exclusiveMinimum": true, "exclusiveMaximum": true,
	"type": true, "precision": true, "optional": true, "minItems": true, "maxItems": true, "additionalProperties": true, "nullable": true,
	"regex": true, "const": true, "enum": true, "or": true, "allOf": true}

func shapeRule(r *ON, w string, needKey bool) *shapeErr {
	if !r.IsObj() {
		return se("rule-type", "%s is not an object", w)
	}
	if e := onlyKeys(r, w, "key", "tokenType", "note", "scalarValue", "children"); e != nil {
		return e
	}
	tt := r.S("tokenType")
	if !jdocRuleTok[tt] {
		return se("rule-tokenType", "%s: tokenType %q", w, tt)
	}
	if needKey && !r.Get("key").IsStr() {
		return se("rule-no-key", "%s: rule without key", w)
	}
	switch tt {
	case "object", "array":
		if r.Has("scalarValue") {
			return se("rule-container-has-scalar", "%s: %s rule with scalarValue", w, tt)
		}
		if ch := r.Get("children"); ch != nil {
			if !ch.IsArr() {
				return se("rule-children-type", "%s: children is not an array", w)
			}
			for i, x := range ch.Vals {
				if e := shapeRule(x, fmt.Sprintf("%s/children[%d]", w, i), tt == "object"); e != nil {
					return e
				}
			}
		}
	default:
		if !r.Get("scalarValue").IsStr() {
			return se("rule-scalar-no-value", "%s: %s rule without scalarValue", w, tt)
		}
		if r.Has("children") {
			return se("rule-scalar-has-children", "%s: %s rule with children", w, tt)
		}
	}
	return nil
}

// ---- cross references (C05) ---------------------------------------------------------------------------------------

// PathParams returns the {parameters} of a path in order.
func PathParams(path string) []string {
	var out []string
	for _, seg := range strings.Split(path, "/") {
		if len(seg) >= 2 && seg[0] == '{' && seg[len(seg)-1] == '}' {
			out = append(out, seg[1:len(seg)-1])
		}
	}
	return out
}

// JDocRefs checks the cross-reference invariants of C05 on a document that already passed JDocShape.
func JDocRefs(doc *ON) *Violation {
	if e := jdocRefs(doc); e != nil {
		return V("c05:refs:"+e.sig, "%s", e.msg)
	}
	return nil
}

func jdocRefs(doc *ON) *shapeErr {
	if doc.S("jsight") != "0.3" {
		return se("jsight-version", "jsight is %q, want \"0.3\"", doc.S("jsight"))
	}
	types, enums := doc.Get("userTypes"), doc.Get("userEnums")
	tags := doc.Get("tags")
	ii := doc.Get("interactions")
	checkSchema := func(s *ON, where string) *shapeErr {
		if s == nil {
			return nil
		}
		if l := s.Get("usedUserTypes"); l != nil {
			for _, v := range l.Vals {
				if types.Get(v.Str) == nil {
					return se("used-type-undefined", "%s: usedUserTypes names %q which is not defined", where, v.Str)
				}
			}
		}
		if l := s.Get("usedUserEnums"); l != nil {
			for _, v := range l.Vals {
				if enums.Get(v.Str) == nil {
					return se("used-enum-undefined", "%s: usedUserEnums names %q which is not defined", where, v.Str)
				}
			}
		}
		return nil
	}
	if types != nil {
		for i, n := range types.Keys {
			if e := checkSchema(types.Vals[i].Get("schema"), "userTypes/"+n); e != nil {
				return e
			}
		}
	}
	for i, key := range ii.Keys {
		it := ii.Vals[i]
		w := "interactions/" + key
		if it.S("id") != key {
			return se("key-id", "%s: id %q differs from its key", w, it.S("id"))
		}
		proto := it.S("protocol")
		var want string
		if proto == "http" {
			want = "http " + it.S("httpMethod") + " " + it.S("path")
		} else {
			want = "json-rpc-2.0 " + it.S("method") + " " + it.S("path")
		}
		if key != want {
			return se("id-fields", "%s: key differs from its fields (%q)", w, want)
		}
		// tags
		seen := map[string]bool{}
		for _, t := range it.Get("tags").Vals {
			if seen[t.Str] {
				return se("interaction-tag-twice", "%s: names tag %q twice", w, t.Str)
			}
			seen[t.Str] = true
			tag := tags.Get(t.Str)
			if tag == nil {
				return se("tag-undefined", "%s: names tag %q which does not exist", w, t.Str)
			}
			cnt, wrongProto := 0, 0
			for _, g := range tag.Get("interactionGroups").Vals {
				for _, id := range g.Get("interactions").Vals {
					if id.Str == key {
						if g.S("protocol") == proto {
							cnt++
						} else {
							wrongProto++
						}
					}
				}
			}
			if cnt != 1 || wrongProto != 0 {
				return se("tag-listing-count", "%s: tag %q lists it %d time(s) under its protocol and %d time(s) under another", w, t.Str, cnt, wrongProto)
			}
		}
		if proto == "http" {
			params := PathParams(it.S("path"))
			var got []string
			if pv := it.Get("pathVariables"); pv != nil {
				sc := pv.Get("schema")
				if e := checkSchema(sc, w+"/pathVariables"); e != nil {
					return e
				}
				c := sc.Get("content")
				if c.S("tokenType") != "object" {
					return se("pathVariables-not-object", "%s: pathVariables content is %q", w, c.S("tokenType"))
				}
				for _, ch := range c.Get("children").Vals {
					got = append(got, ch.S("key"))
				}
			}
			if strings.Join(got, "\x00") != strings.Join(params, "\x00") || len(got) != len(params) {
				return se("pathVariables-vs-path", "%s: pathVariables %v, path parameters %v", w, got, params)
			}
			if q := it.Get("query"); q != nil {
				if e := checkSchema(q.Get("schema"), w+"/query"); e != nil {
					return e
				}
			}
			if rq := it.Get("request"); rq != nil {
				for _, k := range []string{"headers", "body"} {
					if x := rq.Get(k); x != nil {
						if e := checkSchema(x.Get("schema"), w+"/request/"+k); e != nil {
							return e
						}
					}
				}
			}
			if rs := it.Get("responses"); rs != nil {
				for j, r := range rs.Vals {
					rw := fmt.Sprintf("%s/responses[%d]", w, j)
					if !codeRe.MatchString(r.S("code")) {
						return se("response-code", "%s: code %q", rw, r.S("code"))
					}
					if !r.Get("body").IsObj() {
						return se("response-without-body", "%s: no body", rw)
					}
					for _, k := range []string{"headers", "body"} {
						if x := r.Get(k); x != nil {
							if e := checkSchema(x.Get("schema"), rw+"/"+k); e != nil {
								return e
							}
						}
					}
				}
			}
		} else {
			for _, k := range []string{"params", "result"} {
				if x := it.Get(k); x != nil {
					if e := checkSchema(x.Get("schema"), w+"/"+k); e != nil {
						return e
					}
				}
			}
		}
	}
	// tags -> interactions
	for i, tn := range tags.Keys {
		t := tags.Vals[i]
		protos := map[string]bool{}
		for _, g := range t.Get("interactionGroups").Vals {
			p := g.S("protocol")
			if protos[p] {
				return se("tag-protocol-group-twice", "tags/%s: protocol group %q appears twice", tn, p)
			}
			protos[p] = true
			for _, id := range g.Get("interactions").Vals {
				it := ii.Get(id.Str)
				if it == nil {
					return se("tag-lists-unknown", "tags/%s lists %q which is not an interaction", tn, id.Str)
				}
				if it.S("protocol") != p {
					return se("tag-protocol-mismatch", "tags/%s lists %q under protocol %q", tn, id.Str, p)
				}
				found := false
				for _, x := range it.Get("tags").Vals {
					if x.Str == tn {
						found = true
					}
				}
				if !found {
					return se("tag-lists-but-not-named", "tags/%s lists %q, which does not name the tag", tn, id.Str)
				}
			}
		}
	}
	return nil
}
