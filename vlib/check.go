package vlib

import (
	"encoding/json"
	"flag"
	"fmt"
	"hash/fnv"
	"os"
	"path/filepath"
	"regexp"
	"sort"
	"strconv"
	"strings"
	"sync"
	"testing"

	"pgregory.net/rapid"
)

// Finding is one entry of /verif/known_findings.json.
type Finding struct {
	ID       string `json:"id"`
	Property string `json:"property"`
	Status   string `json:"status"` // open | fixed
	Title    string `json:"title"`
	Commit   string `json:"commit,omitempty"`
	Repro    string `json:"repro,omitempty"` // replay file relative to /verif
	Match    string `json:"match,omitempty"` // regexp over Violation.Sig
	re       *regexp.Regexp
}

var (
	findingsOnce sync.Once
	findings     []*Finding
)

func VerifRoot() string {
	if r := os.Getenv("VERIF_ROOT"); r != "" {
		return r
	}
	return "/verif"
}

func Findings() []*Finding {
	findingsOnce.Do(func() {
		b, err := os.ReadFile(filepath.Join(VerifRoot(), "known_findings.json"))
		if err != nil {
			return
		}
		var ff []*Finding
		if err := json.Unmarshal(b, &ff); err != nil {
			panic("known_findings.json: " + err.Error())
		}
		for _, f := range ff {
			if f.Match != "" {
				f.re = regexp.MustCompile(f.Match)
			}
		}
		findings = ff
	})
	return findings
}

// MatchExcluded returns the id of an *enabled* open finding of this property whose matcher covers the violation.
func MatchExcluded(prop string, v *Violation) string {
	ex := ExcludedIDs()
	if len(ex) == 0 {
		return ""
	}
	for _, f := range Findings() {
		if f.Status == "open" && f.Property == prop && ex[f.ID] && f.re != nil && f.re.MatchString(v.Sig) {
			return f.ID
		}
	}
	return ""
}

// ExclusionOn reports whether the driver enabled the exclusion of the given finding for this run.
func ExclusionOn(id string) bool { return ExcludedIDs()[id] }

// Check is one generated sub-check of a property.
type Check struct {
	Prop string
	Name string
	// Quick / Thorough: total number of rapid checks over all shards of the tier.
	Quick, Thorough int
	// Gen draws a case; returning nil skips (counted as class "skipped").
	Gen func(t *rapid.T) *Case
	// Oracle decides the case: nil = the property held.
	Oracle func(c *Case) *Violation
	// Classify says whether the case is non-trivial by the property's rule and which classes it belongs to.
	Classify func(c *Case) (bool, []string)
	// SampleOf renders the case for the evidence file (default: project summary).
	SampleOf func(c *Case) any
	// Inner, when set, is what an isolated worker runs for this check (the parent-side Oracle then usually is IsoOracle).
	Inner func(c *Case) (*Violation, string)
}

var (
	sharedIso     *Iso
	sharedIsoOnce sync.Once
)

// SharedIso returns the process-wide isolated worker.
func SharedIso() *Iso {
	sharedIsoOnce.Do(func() { sharedIso = NewIso() })
	return sharedIso
}

func SharedIsoStarted() bool { return sharedIso != nil }

// IsoOracle evaluates the check's Inner oracle in the isolated worker.
func IsoOracle(c *Case) *Violation {
	v, _ := SharedIso().Run(c)
	return v
}

// WorkerOracle is the dispatch function of worker processes.
func WorkerOracle(c *Case) (*Violation, string) {
	ck := Lookup(c.Property, c.Kind)
	if ck == nil || ck.Inner == nil {
		return V("harness:no-inner-oracle", "%s/%s", c.Property, c.Kind), ""
	}
	return ck.Inner(c)
}

var (
	registry   = map[string]*Check{}
	registryMu sync.Mutex
)

func Register(cs ...*Check) {
	registryMu.Lock()
	defer registryMu.Unlock()
	for _, c := range cs {
		registry[c.Prop+"/"+c.Name] = c
	}
}

func Lookup(prop, kind string) *Check {
	registryMu.Lock()
	defer registryMu.Unlock()
	return registry[prop+"/"+kind]
}

func Registered() []string {
	registryMu.Lock()
	defer registryMu.Unlock()
	var kk []string
	for k := range registry {
		kk = append(kk, k)
	}
	sort.Strings(kk)
	return kk
}

func (ck *Check) count() int {
	n := ck.Quick
	if Tier() == "thorough" {
		n = ck.Thorough
	}
	n = int(float64(n) * Budget())
	n = n / Shards()
	if n < 1 {
		n = 1
	}
	return n
}

func rapidSeed(name string) uint64 {
	h := fnv.New64a()
	fmt.Fprintf(h, "%d|%d|%s", Seed(), Shard(), name)
	s := h.Sum64() >> 1
	if s == 0 {
		s = 1
	}
	return s
}

func defaultSample(c *Case) any {
	m := map[string]any{}
	if c.Project != nil {
		m["project"] = c.Project.Summary(600)
	}
	if c.Project2 != nil {
		m["project2"] = c.Project2.Summary(600)
	}
	if len(c.Ops) > 0 {
		m["ops"] = c.Ops
	}
	if len(c.Params) > 0 {
		m["params"] = c.Params
	}
	if c.Note != "" {
		m["note"] = c.Note
	}
	return m
}

// Handle runs the oracle on a case, accounts for it and reports whether it is a (non-excluded) violation.
func (ck *Check) Handle(c *Case) *Violation {
	c.Property, c.Kind = ck.Prop, ck.Name
	ev := Ev(ck.Prop)
	nt, classes := true, []string(nil)
	if ck.Classify != nil {
		// classification works on a copy: it may build the project, and a build must not be able to disturb the case the
		// oracle is about to judge (e.g. by modifying the source bytes it was given)
		cc := *c
		if c.Project != nil {
			cc.Project = c.Project.Clone()
		}
		if c.Project2 != nil {
			cc.Project2 = c.Project2.Clone()
		}
		// ... and it must not end the run when the code under test panics: the oracle is the judge of that
		if sig, _, _ := Safely(func() { nt, classes = ck.Classify(&cc) }); sig != "" {
			nt, classes = false, []string{"classification-panicked"}
		}
	}
	for i := range classes {
		classes[i] = ck.Name + ":" + classes[i]
	}
	classes = append(classes, "check:"+ck.Name)
	ev.Eval(c.Hash(), nt, classes...)
	skind := ck.Name
	if len(classes) > 1 {
		skind = classes[0]
	}
	if nt && ev.WantSample(skind) {
		if ck.SampleOf != nil {
			ev.Sample(skind, ck.SampleOf(c))
		} else {
			ev.Sample(skind, defaultSample(c))
		}
	}
	v := ck.Oracle(c)
	if v == nil {
		return nil
	}
	if id := MatchExcluded(ck.Prop, v); id != "" {
		ev.Excluded(id)
		return nil
	}
	return v
}

// SaveFailure writes the failing case where the driver picks it up.
func SaveFailure(c *Case, v *Violation) string {
	out := os.Getenv("VERIF_OUT")
	if out == "" {
		out = filepath.Join(os.TempDir(), "verif-out")
	}
	cc := *c
	cc.Violation = v
	p := filepath.Join(out, fmt.Sprintf("fail-%s-%s-%d.json", c.Property, c.Kind, Shard()))
	if err := SaveCase(p, &cc); err != nil {
		fmt.Fprintln(os.Stderr, "harness: cannot save failure:", err)
	}
	return p
}

// Run drives the check with rapid.
func (ck *Check) Run(t *testing.T) {
	n := ck.count()
	_ = os.RemoveAll(filepath.Join("testdata", "rapid"))
	mustSet("rapid.checks", strconv.Itoa(n))
	mustSet("rapid.seed", strconv.FormatUint(rapidSeed(ck.Prop+"/"+ck.Name), 10))
	mustSet("rapid.nofailfile", "true")
	mustSet("rapid.shrinktime", "20s")
	ev := Ev(ck.Prop)
	rapid.Check(t, func(rt *rapid.T) {
		c := ck.Gen(rt)
		if c == nil {
			ev.Class(ck.Name + ":skipped")
			return
		}
		if v := ck.Handle(c); v != nil {
			p := SaveFailure(c, v)
			rt.Fatalf("VERIF-FAIL property=%s check=%s replay=%s\n%s", ck.Prop, ck.Name, p, v)
		}
	})
	if t.Failed() {
		ev.ViolationSeen()
	}
}

// RunEnum drives the check over an enumerated (non-random) sequence of cases.  It stops at the first violation.
// next returns nil when the space is exhausted.
func (ck *Check) RunEnum(t *testing.T, next func() *Case) (complete bool) {
	ev := Ev(ck.Prop)
	for {
		c := next()
		if c == nil {
			return true
		}
		if v := ck.Handle(c); v != nil {
			p := SaveFailure(c, v)
			ev.ViolationSeen()
			t.Fatalf("VERIF-FAIL property=%s check=%s replay=%s\n%s", ck.Prop, ck.Name, p, v)
			return false
		}
	}
}

func mustSet(name, val string) {
	if err := flag.Set(name, val); err != nil {
		panic(fmt.Sprintf("flag %s: %v", name, err))
	}
}

// ReplayFiles runs the listed replay files through their oracles (no library, no exclusions) and prints one line each.
func ReplayFiles(t *testing.T, files []string) {
	for _, f := range files {
		f = strings.TrimSpace(f)
		if f == "" {
			continue
		}
		c, err := LoadCase(f)
		if err != nil {
			fmt.Printf("REPLAY %s ERROR %v\n", f, err)
			t.Errorf("replay %s: %v", f, err)
			continue
		}
		ck := Lookup(c.Property, c.Kind)
		if ck == nil {
			fmt.Printf("REPLAY %s ERROR no oracle for %s/%s\n", f, c.Property, c.Kind)
			t.Errorf("replay %s: no oracle for %s/%s", f, c.Property, c.Kind)
			continue
		}
		Ev(c.Property).Replayed()
		c.Violation = nil
		v := ck.Oracle(c)
		if v == nil {
			fmt.Printf("REPLAY %s PASS\n", f)
		} else {
			fmt.Printf("REPLAY %s FAIL %s\n", f, strings.ReplaceAll(v.Sig, "\n", " "))
			fmt.Printf("REPLAY-DETAIL %s\n", strings.ReplaceAll(v.Detail, "\n", "\n    "))
		}
	}
}

// Rnd is the source of random choices handed to mutators and generators; it is always backed by rapid.
type Rnd interface {
	Intn(n int) int // 0 <= x < n, n >= 1
}

type RapidRnd struct{ T *rapid.T }

func (r RapidRnd) Intn(n int) int {
	if n <= 1 {
		return 0
	}
	return rapid.IntRange(0, n-1).Draw(r.T, "i")
}

func Pick[T any](r Rnd, xs []T) T { return xs[r.Intn(len(xs))] }

// Chance returns true with probability num/den.
func Chance(r Rnd, num, den int) bool { return r.Intn(den) < num }
