package vlib

import (
	"bytes"
	"encoding/json"
	"fmt"
	"io"
	"sort"
	"strings"
)

// ON is an order-preserving JSON value (object keys keep their order; duplicate keys are kept, so they can be detected).
type ON struct {
	Kind byte // 'o' object, 'a' array, 's' string, 'n' number, 'b' bool, 'z' null
	Keys []string
	Vals []*ON // object values (parallel to Keys) or array items
	Str  string
	Bool bool
}

func ParseOrdered(b []byte) (*ON, error) {
	dec := json.NewDecoder(bytes.NewReader(b))
	dec.UseNumber()
	v, err := parseON(dec)
	if err != nil {
		return nil, err
	}
	if _, err := dec.Token(); err != io.EOF {
		return nil, fmt.Errorf("trailing data after JSON value")
	}
	return v, nil
}

func parseON(dec *json.Decoder) (*ON, error) {
	t, err := dec.Token()
	if err != nil {
		return nil, err
	}
	switch x := t.(type) {
	case json.Delim:
		switch x {
		case '{':
			n := &ON{Kind: 'o'}
			for dec.More() {
				kt, err := dec.Token()
				if err != nil {
					return nil, err
				}
				k, ok := kt.(string)
				if !ok {
					return nil, fmt.Errorf("object key is not a string")
				}
				v, err := parseON(dec)
				if err != nil {
					return nil, err
				}
				n.Keys = append(n.Keys, k)
				n.Vals = append(n.Vals, v)
			}
			_, err := dec.Token()
			return n, err
		case '[':
			n := &ON{Kind: 'a'}
			for dec.More() {
				v, err := parseON(dec)
				if err != nil {
					return nil, err
				}
				n.Vals = append(n.Vals, v)
			}
			_, err := dec.Token()
			return n, err
		}
		return nil, fmt.Errorf("unexpected delimiter %v", x)
	case string:
		return &ON{Kind: 's', Str: x}, nil
	case json.Number:
		return &ON{Kind: 'n', Str: x.String()}, nil
	case bool:
		return &ON{Kind: 'b', Bool: x}, nil
	case nil:
		return &ON{Kind: 'z'}, nil
	}
	return nil, fmt.Errorf("unexpected token %v", t)
}

func (n *ON) Get(k string) *ON {
	if n == nil || n.Kind != 'o' {
		return nil
	}
	for i, kk := range n.Keys {
		if kk == k {
			return n.Vals[i]
		}
	}
	return nil
}

func (n *ON) Has(k string) bool { return n.Get(k) != nil }

func (n *ON) S(k string) string {
	v := n.Get(k)
	if v == nil || v.Kind != 's' {
		return ""
	}
	return v.Str
}

func (n *ON) IsObj() bool { return n != nil && n.Kind == 'o' }
func (n *ON) IsArr() bool { return n != nil && n.Kind == 'a' }
func (n *ON) IsStr() bool { return n != nil && n.Kind == 's' }

// DupKey returns a path to an object holding a duplicated key, or "".
func (n *ON) DupKey(path string) string {
	if n == nil {
		return ""
	}
	switch n.Kind {
	case 'o':
		seen := map[string]bool{}
		for i, k := range n.Keys {
			if seen[k] {
				return path + "/" + k
			}
			seen[k] = true
			if p := n.Vals[i].DupKey(path + "/" + k); p != "" {
				return p
			}
		}
	case 'a':
		for i, v := range n.Vals {
			if p := v.DupKey(fmt.Sprintf("%s[%d]", path, i)); p != "" {
				return p
			}
		}
	}
	return ""
}

// Canon renders the value canonically; sorted=true sorts object keys (order-insensitive comparison).
func (n *ON) Canon(sorted bool) string {
	var sb strings.Builder
	n.canon(&sb, sorted)
	return sb.String()
}

func (n *ON) canon(sb *strings.Builder, sorted bool) {
	if n == nil {
		sb.WriteString("<absent>")
		return
	}
	switch n.Kind {
	case 'o':
		idx := make([]int, len(n.Keys))
		for i := range idx {
			idx[i] = i
		}
		if sorted {
			sort.SliceStable(idx, func(a, b int) bool { return n.Keys[idx[a]] < n.Keys[idx[b]] })
		}
		sb.WriteByte('{')
		for j, i := range idx {
			if j > 0 {
				sb.WriteByte(',')
			}
			kb, _ := json.Marshal(n.Keys[i])
			sb.Write(kb)
			sb.WriteByte(':')
			n.Vals[i].canon(sb, sorted)
		}
		sb.WriteByte('}')
	case 'a':
		sb.WriteByte('[')
		for i, v := range n.Vals {
			if i > 0 {
				sb.WriteByte(',')
			}
			v.canon(sb, sorted)
		}
		sb.WriteByte(']')
	case 's':
		b, _ := json.Marshal(n.Str)
		sb.Write(b)
	case 'n':
		sb.WriteString(n.Str)
	case 'b':
		if n.Bool {
			sb.WriteString("true")
		} else {
			sb.WriteString("false")
		}
	case 'z':
		sb.WriteString("null")
	}
}

// MapStrings applies f to every string value (not keys) and returns a copy.
func (n *ON) MapStrings(f func(path []string, s string) string) *ON {
	return n.mapStrings(nil, f)
}

func (n *ON) mapStrings(path []string, f func([]string, string) string) *ON {
	if n == nil {
		return nil
	}
	c := *n
	switch n.Kind {
	case 'o':
		c.Vals = make([]*ON, len(n.Vals))
		for i, v := range n.Vals {
			c.Vals[i] = v.mapStrings(append(path, n.Keys[i]), f)
		}
	case 'a':
		c.Vals = make([]*ON, len(n.Vals))
		for i, v := range n.Vals {
			c.Vals[i] = v.mapStrings(path, f)
		}
	case 's':
		c.Str = f(path, n.Str)
	}
	return &c
}

// FirstDiff describes the first difference between two values (ordered comparison), or "".
func FirstDiff(a, b *ON, path string) string {
	switch {
	case a == nil && b == nil:
		return ""
	case a == nil:
		return path + ": missing on the left, right has " + clipS(b.Canon(false), 200)
	case b == nil:
		return path + ": missing on the right, left has " + clipS(a.Canon(false), 200)
	case a.Kind != b.Kind:
		return fmt.Sprintf("%s: kinds differ: %s vs %s", path, clipS(a.Canon(false), 200), clipS(b.Canon(false), 200))
	}
	switch a.Kind {
	case 'o':
		for i := 0; i < len(a.Keys) && i < len(b.Keys); i++ {
			if a.Keys[i] != b.Keys[i] {
				// distinguish order from presence
				if b.Get(a.Keys[i]) == nil {
					return fmt.Sprintf("%s: key %q only on the left", path, a.Keys[i])
				}
				if a.Get(b.Keys[i]) == nil {
					return fmt.Sprintf("%s: key %q only on the right", path, b.Keys[i])
				}
				return fmt.Sprintf("%s: key order differs at #%d: %q vs %q", path, i, a.Keys[i], b.Keys[i])
			}
			if d := FirstDiff(a.Vals[i], b.Vals[i], path+"/"+a.Keys[i]); d != "" {
				return d
			}
		}
		if len(a.Keys) != len(b.Keys) {
			if len(a.Keys) > len(b.Keys) {
				return fmt.Sprintf("%s: key %q only on the left", path, a.Keys[len(b.Keys)])
			}
			return fmt.Sprintf("%s: key %q only on the right", path, b.Keys[len(a.Keys)])
		}
	case 'a':
		for i := 0; i < len(a.Vals) && i < len(b.Vals); i++ {
			if d := FirstDiff(a.Vals[i], b.Vals[i], fmt.Sprintf("%s[%d]", path, i)); d != "" {
				return d
			}
		}
		if len(a.Vals) != len(b.Vals) {
			return fmt.Sprintf("%s: array lengths differ: %d vs %d", path, len(a.Vals), len(b.Vals))
		}
	case 's', 'n':
		if a.Str != b.Str {
			return fmt.Sprintf("%s: %q vs %q", path, clipS(a.Str, 200), clipS(b.Str, 200))
		}
	case 'b':
		if a.Bool != b.Bool {
			return fmt.Sprintf("%s: %v vs %v", path, a.Bool, b.Bool)
		}
	}
	return ""
}

func clipS(s string, n int) string {
	if len(s) > n {
		return s[:n] + "…"
	}
	return s
}

// StripExamples returns a copy in which every "example" string is blanked.  It is used by the cross-build relations
// (C08, C09, C10, C15) for projects that declare a regex user type: the example of a schema that reaches a regex type
// through several routes is not reproducible between builds (open finding N5 of C06, rooted in jsight-schema-core).
func (n *ON) StripExamples() *ON {
	return n.MapStrings(func(path []string, s string) string {
		if len(path) > 0 && path[len(path)-1] == "example" {
			return ""
		}
		return s
	})
}
