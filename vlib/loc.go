package vlib

import (
	"bytes"
	"path"
	"regexp"
	"strconv"
	"strings"
)

// Independent location oracle (C07): line / column / quote of a byte index, and include-trace validation.

// LineConvention classifies the line endings of a file: "lf", "crlf", "cr", "none" (no break at all) or "mixed".
func LineConvention(b []byte) string {
	hasCR, hasLF := bytes.IndexByte(b, '\r') >= 0, bytes.IndexByte(b, '\n') >= 0
	switch {
	case !hasCR && !hasLF:
		return "none"
	case !hasCR:
		return "lf"
	case !hasLF:
		return "cr"
	}
	for i, c := range b {
		if c == '\r' && (i+1 >= len(b) || b[i+1] != '\n') {
			return "mixed"
		}
		if c == '\n' && (i == 0 || b[i-1] != '\r') {
			return "mixed"
		}
	}
	return "crlf"
}

// RefLocation computes line, column (1-based, bytes) and the quote of the line holding idx (0 <= idx <= len).
// ok=false for mixed line endings (nothing is asserted then).
func RefLocation(b []byte, idx int) (line, col int, quote string, ok bool) {
	conv := LineConvention(b)
	if conv == "mixed" || idx < 0 || idx > len(b) {
		return 0, 0, "", false
	}
	term := byte('\n')
	if conv == "cr" {
		term = '\r'
	}
	line = 1
	start := 0
	for i := 0; i < idx; i++ {
		if b[i] == term {
			line++
			start = i + 1
		}
	}
	col = idx - start + 1
	end := idx
	for end < len(b) && b[end] != term {
		end++
	}
	// idx == len(b) right after a terminator: the (empty) last line
	textEnd := end
	if conv == "crlf" && textEnd > start && b[textEnd-1] == '\r' {
		textEnd--
	}
	if textEnd < start {
		textEnd = start
	}
	text := b[start:textEnd]
	cut := false
	if textEnd-start > 200 { // the line without its line break
		lim := start + 197
		if lim > len(b) {
			lim = len(b)
		}
		text = b[start:lim]
		cut = true
	}
	text = bytes.TrimLeft(text, " \t\r\n")
	quote = string(text)
	if cut {
		quote += "..."
	}
	return line, col, quote, true
}

// TraceEntry is one "file:line" element of the rendered include trace.
type TraceEntry struct {
	File string
	Line int
}

var traceLineRe = regexp.MustCompile(`^(.*):(\d+)$`)

// ParseTrace splits the rendered error text into message and trace (trace lines name project files).
func ParseTrace(errText string, p *Project) (msg string, trace []TraceEntry) {
	lines := strings.Split(errText, "\n")
	n := len(lines)
	for n > 0 {
		m := traceLineRe.FindStringSubmatch(lines[n-1])
		if m == nil {
			break
		}
		if _, ok := p.Files[m[1]]; !ok {
			break
		}
		l, _ := strconv.Atoi(m[2])
		trace = append([]TraceEntry{{m[1], l}}, trace...)
		n--
	}
	return strings.Join(lines[:n], "\n"), trace
}

// (a "### ... ###" block comment, possibly over several lines, may sit between the keyword and the file name: the INCLUDE
// is on the line of its keyword)
var includeLineRe = regexp.MustCompile(`^[ \t]*INCLUDE[ \t]+(?:###[\s\S]*?###[ \t]*)?("((?:[^"\\]|\\.)*)"|[^ \t\r\n#]+)`)

// IncludesOnLine returns the project-relative target of an INCLUDE directive written on the given 1-based line of
// file (or "" if that line holds none).
func IncludesOnLine(p *Project, file string, line int) string {
	b := p.Files[file]
	conv := LineConvention(b)
	if conv == "mixed" {
		return ""
	}
	sep := "\n"
	if conv == "cr" {
		sep = "\r"
	}
	ll := strings.Split(string(b), sep)
	if line < 1 || line > len(ll) {
		return ""
	}
	m := includeLineRe.FindStringSubmatch(strings.Join(ll[line-1:], sep))
	if m == nil {
		return ""
	}
	target := m[1]
	if strings.HasPrefix(target, "\"") {
		target = m[2]
		target = strings.ReplaceAll(strings.ReplaceAll(target, `\"`, `"`), `\\`, `\`)
	}
	return path.Join(path.Dir(file), target)
}

// FirstIncludeLineOf returns the line of the first INCLUDE of target written in file (0 if none).
func FirstIncludeLineOf(p *Project, file, target string) int {
	b := p.Files[file]
	conv := LineConvention(b)
	sep := "\n"
	if conv == "cr" {
		sep = "\r"
	}
	for i := range strings.Split(string(b), sep) {
		if IncludesOnLine(p, file, i+1) == target {
			return i + 1
		}
	}
	return 0
}

// FirstIncludeLine returns the line of the first INCLUDE directive (of any file) written in file (0 if none).
func FirstIncludeLine(p *Project, file string) int {
	b := p.Files[file]
	conv := LineConvention(b)
	sep := "\n"
	if conv == "cr" {
		sep = "\r"
	}
	for i := range strings.Split(string(b), sep) {
		if IncludesOnLine(p, file, i+1) != "" {
			return i + 1
		}
	}
	return 0
}

// LineText returns the text of the 1-based line n of a file with uniform line endings ("" beyond the end).
func LineText(b []byte, n int) string {
	s := strings.ReplaceAll(string(b), "\r\n", "\n")
	s = strings.ReplaceAll(s, "\r", "\n")
	ll := strings.Split(s, "\n")
	if n < 1 || n > len(ll) {
		return ""
	}
	return ll[n-1]
}
