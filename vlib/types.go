// Package vlib holds the machinery shared by all property checks: the project / case / violation types,
// in-process and isolated execution of builds, evidence collection, corpus loading and mutators.
package vlib

import (
	"bytes"
	"compress/gzip"
	"crypto/sha1"
	"encoding/hex"
	"encoding/json"
	"fmt"
	"io"
	"os"
	"path/filepath"
	"sort"
	"strings"
)

// Project is a JSight API project: a root file plus the files reachable through INCLUDE.
// File names are relative, slash separated.  A nil Files[Root] means "the root file does not exist".
type Project struct {
	Root   string            `json:"root"`
	Files  map[string][]byte `json:"files"` // base64 in JSON
	Dirs   []string          `json:"dirs,omitempty"`
	Banned []string          `json:"banned,omitempty"`
	// NoRoot: the root file is not written (nonexistent root).
	NoRoot bool `json:"no_root,omitempty"`
	// ViaPath: build through kit.NewJapi(path) instead of kit.NewJApiFromFile.
	ViaPath bool `json:"via_path,omitempty"`
	// RootSpelling: how the path of the root file is written when the project is built from disk:
	// "" clean absolute path | "dot" dir/./root | "slashes" dir//root | "updown" dir/sub/../root.
	RootSpelling string `json:"root_spelling,omitempty"`
	// BanSplit: the banned kinds are passed as one core.WithBannedDirectives option each instead of one option for all.
	BanSplit bool `json:"ban_split,omitempty"`
	// FixedDir: the project is written to (and built from) this named directory of the work area instead of a fresh one:
	// consecutive builds then use the same file paths (the directory is emptied first).
	FixedDir string `json:"fixed_dir,omitempty"`
}

// Large files (megabytes of one repeated byte: nesting bombs) are stored gzip-compressed under "files_gz" in the JSON
// form, so that a replay file stays small; everything else sees plain Files.
const gzThreshold = 64 << 10

type projectPlain Project

type projectJSON struct {
	*projectPlain
	Files   map[string][]byte `json:"files"`
	FilesGz map[string][]byte `json:"files_gz,omitempty"`
}

func (p *Project) MarshalJSON() ([]byte, error) {
	out := projectJSON{projectPlain: (*projectPlain)(p), Files: map[string][]byte{}}
	for n, b := range p.Files {
		if len(b) < gzThreshold {
			out.Files[n] = b
			continue
		}
		var buf bytes.Buffer
		w := gzip.NewWriter(&buf)
		_, _ = w.Write(b)
		_ = w.Close()
		if out.FilesGz == nil {
			out.FilesGz = map[string][]byte{}
		}
		out.FilesGz[n] = buf.Bytes()
	}
	return json.Marshal(out)
}

func (p *Project) UnmarshalJSON(data []byte) error {
	in := projectJSON{projectPlain: (*projectPlain)(p)}
	if err := json.Unmarshal(data, &in); err != nil {
		return err
	}
	p.Files = in.Files
	if p.Files == nil {
		p.Files = map[string][]byte{}
	}
	for n, z := range in.FilesGz {
		r, err := gzip.NewReader(bytes.NewReader(z))
		if err != nil {
			return err
		}
		b, err := io.ReadAll(r)
		if err != nil {
			return err
		}
		p.Files[n] = b
	}
	return nil
}

func SingleFile(data []byte) *Project {
	return &Project{Root: "root.jst", Files: map[string][]byte{"root.jst": data}}
}

func (p *Project) RootBytes() []byte { return p.Files[p.Root] }

func (p *Project) Clone() *Project {
	q := &Project{Root: p.Root, Files: map[string][]byte{}, NoRoot: p.NoRoot, ViaPath: p.ViaPath, RootSpelling: p.RootSpelling, BanSplit: p.BanSplit, FixedDir: p.FixedDir}
	for k, v := range p.Files {
		q.Files[k] = append([]byte(nil), v...)
	}
	q.Dirs = append([]string(nil), p.Dirs...)
	q.Banned = append([]string(nil), p.Banned...)
	return q
}

// Names returns the file names sorted.
func (p *Project) Names() []string {
	nn := make([]string, 0, len(p.Files))
	for k := range p.Files {
		nn = append(nn, k)
	}
	sort.Strings(nn)
	return nn
}

// Hash is a stable digest of the project (used to count distinct cases).
func (p *Project) Hash() string {
	h := sha1.New()
	fmt.Fprintf(h, "root=%s;noroot=%v;via=%v;ban=%s;sp=%s;bs=%v;", p.Root, p.NoRoot, p.ViaPath, strings.Join(p.Banned, ","), p.RootSpelling, p.BanSplit)
	for _, n := range p.Names() {
		fmt.Fprintf(h, "%s:%d:", n, len(p.Files[n]))
		h.Write(p.Files[n])
	}
	for _, d := range p.Dirs {
		fmt.Fprintf(h, "dir:%s;", d)
	}
	return hex.EncodeToString(h.Sum(nil))
}

// NeedsDisk reports whether the project must be materialised (more than the root file, or path-based build).
func (p *Project) NeedsDisk() bool {
	return len(p.Files) > 1 || len(p.Dirs) > 0 || p.ViaPath || p.NoRoot
}

// Materialize writes the project below dir and returns the absolute root path.
func (p *Project) Materialize(dir string) (string, error) {
	for _, d := range p.Dirs {
		if err := os.MkdirAll(filepath.Join(dir, filepath.FromSlash(d)), 0o755); err != nil {
			return "", err
		}
	}
	for n, b := range p.Files {
		if n == p.Root && p.NoRoot {
			continue
		}
		fp := filepath.Join(dir, filepath.FromSlash(n))
		if err := os.MkdirAll(filepath.Dir(fp), 0o755); err != nil {
			return "", err
		}
		if err := os.WriteFile(fp, b, 0o644); err != nil {
			return "", err
		}
	}
	return filepath.Join(dir, filepath.FromSlash(p.Root)), nil
}

// Summary renders the project for evidence samples (truncated).
func (p *Project) Summary(max int) any {
	cut := func(b []byte) string {
		s := string(b)
		if len(s) > max {
			s = s[:max] + fmt.Sprintf("…(+%d bytes)", len(b)-max)
		}
		return s
	}
	if len(p.Files) <= 1 && len(p.Banned) == 0 && !p.NoRoot {
		return cut(p.RootBytes())
	}
	m := map[string]any{}
	for _, n := range p.Names() {
		m[n] = cut(p.Files[n])
	}
	out := map[string]any{"root": p.Root, "files": m}
	if len(p.Banned) > 0 {
		out["banned"] = p.Banned
	}
	if p.NoRoot {
		out["no_root"] = true
	}
	return out
}

// Case is one generated (or replayed) case of a property.  It is self-contained: replaying it needs no generator.
type Case struct {
	Property string   `json:"property"`
	Kind     string   `json:"kind,omitempty"` // sub-check within the property
	Project  *Project `json:"project,omitempty"`
	Project2 *Project `json:"project2,omitempty"` // transformed project for metamorphic relations
	Ops      []string `json:"ops,omitempty"`
	// Expect carries the oracle's expectation when it is computed by the generator side (model based checks).
	Expect json.RawMessage `json:"expect,omitempty"`
	// Params are free-form parameters of the sub-check.
	Params map[string]any `json:"params,omitempty"`
	Note   string         `json:"note,omitempty"`
	// Violation is filled in when the case is written as a failure.
	Violation *Violation `json:"violation,omitempty"`
}

func (c *Case) Hash() string {
	h := sha1.New()
	fmt.Fprintf(h, "%s|%s|", c.Property, c.Kind)
	if c.Project != nil {
		h.Write([]byte(c.Project.Hash()))
	}
	if c.Project2 != nil {
		h.Write([]byte(c.Project2.Hash()))
	}
	h.Write([]byte(strings.Join(c.Ops, ",")))
	h.Write(c.Expect)
	if len(c.Params) > 0 {
		b, _ := json.Marshal(c.Params)
		h.Write(b)
	}
	return hex.EncodeToString(h.Sum(nil))
}

// Violation describes a failed oracle.  Sig is a stable signature used to match known findings; Detail is for humans.
type Violation struct {
	Sig    string `json:"sig"`
	Detail string `json:"detail"`
}

func (v *Violation) String() string {
	if v == nil {
		return "<nil>"
	}
	return v.Sig + " :: " + v.Detail
}

func V(sig, format string, args ...any) *Violation {
	d := fmt.Sprintf(format, args...)
	if len(d) > 4000 {
		d = d[:4000] + "…"
	}
	return &Violation{Sig: sig, Detail: d}
}

func LoadCase(path string) (*Case, error) {
	b, err := os.ReadFile(path)
	if err != nil {
		return nil, err
	}
	var c Case
	if err := json.Unmarshal(b, &c); err != nil {
		return nil, fmt.Errorf("%s: %w", path, err)
	}
	return &c, nil
}

func SaveCase(path string, c *Case) error {
	b, err := json.MarshalIndent(c, "", " ")
	if err != nil {
		return err
	}
	if err := os.MkdirAll(filepath.Dir(path), 0o755); err != nil {
		return err
	}
	return os.WriteFile(path, b, 0o644)
}
