package vlib

import (
	"regexp"
	"strings"
)

// OpenAPI structural validator (C17), written from the OpenAPI 3.0.3 structure the property names.

var oasTemplateExpr = regexp.MustCompile(`\{([^{}/]+)\}`)

var oasRespKey = regexp.MustCompile(`^([1-5][0-9][0-9]|default)$`)

func collectRefs(n *ON, acc *[]string) {
	if n == nil {
		return
	}
	switch n.Kind {
	case 'o':
		for i, k := range n.Keys {
			if k == "$ref" && n.Vals[i].IsStr() {
				*acc = append(*acc, n.Vals[i].Str)
			} else {
				collectRefs(n.Vals[i], acc)
			}
		}
	case 'a':
		for _, v := range n.Vals {
			collectRefs(v, acc)
		}
	}
}

// mixedRefOnlyInPathParameters: every $ref to the component "mixed" sits in the schema of a parameter with in: path.
func mixedRefOnlyInPathParameters(oas *ON) bool {
	const ref = "#/components/schemas/mixed"
	count := func(n *ON) int {
		var rr []string
		collectRefs(n, &rr)
		k := 0
		for _, r := range rr {
			if r == ref {
				k++
			}
		}
		return k
	}
	inParams := 0
	var params func(n *ON)
	params = func(n *ON) {
		if n == nil {
			return
		}
		switch n.Kind {
		case 'o':
			for i, k := range n.Keys {
				if k == "parameters" && n.Vals[i].IsArr() {
					for _, p := range n.Vals[i].Vals {
						if p.IsObj() && p.S("in") == "path" {
							inParams += count(p.Get("schema"))
						}
					}
					continue
				}
				params(n.Vals[i])
			}
		case 'a':
			for _, v := range n.Vals {
				params(v)
			}
		}
	}
	params(oas.Get("paths"))
	return inParams > 0 && inParams == count(oas)
}

// OASCheck validates the OpenAPI document against the catalog it was exported from.
func OASCheck(oas, cat *ON) *Violation {
	if !oas.IsObj() {
		return V("c17:not-object", "the OpenAPI document is not a JSON object")
	}
	if p := oas.DupKey(""); p != "" {
		if strings.ContainsRune(p, '\uFFFD') {
			// two names that differ only in bytes which are not valid UTF-8: encoding/json writes U+FFFD for each of them
			return V("c17:duplicate-key:names-collide-after-utf8-replacement", "a key is emitted twice at %s", p)
		}
		return V("c17:duplicate-key", "a key is emitted twice at %s", p)
	}
	for _, k := range []string{"openapi", "info", "paths"} {
		if !oas.Has(k) {
			return V("c17:missing:"+k, "top-level key %q is missing", k)
		}
	}
	if !oas.Get("openapi").IsStr() || !strings.HasPrefix(oas.S("openapi"), "3.0") {
		return V("c17:openapi-version", "openapi is %s", oas.Get("openapi").Canon(false))
	}
	if !oas.Get("info").IsObj() || !oas.Get("paths").IsObj() {
		return V("c17:section-type", "info/paths must be objects")
	}
	var comps *ON
	if c := oas.Get("components"); c != nil {
		comps = c.Get("schemas")
	}
	if ut := cat.Get("userTypes"); ut != nil {
		for _, name := range ut.Keys {
			// the component is named like the type without its first character, the '@'; the builder also accepts type
			// names that do not begin with '@' ("TYPE [@a]", nothing can refer to such a type): there the exporter's
			// component "@a]" is a component for that type all the same
			if comps.Get(strings.TrimPrefix(name, "@")) == nil && (name == "" || comps.Get(name[1:]) == nil) {
				return V("c17:usertype-not-component", "user type %s is not in components.schemas", name)
			}
		}
	}
	var refs []string
	collectRefs(oas, &refs)
	for _, r := range refs {
		const pfx = "#/components/schemas/"
		if !strings.HasPrefix(r, pfx) || comps.Get(r[len(pfx):]) == nil {
			if r == pfx+"mixed" && mixedRefOnlyInPathParameters(oas) {
				// a path parameter whose schema is the pseudo type "mixed": the Path body took the property from a
				// compiled user type and the `or` rule was lost on the way (open finding J5)
				return V("c17:dangling-ref:mixed-path-parameter", "$ref %q (a path parameter's schema) does not resolve into components.schemas", r)
			}
			return V("c17:dangling-ref", "$ref %q does not resolve into components.schemas", r)
		}
	}
	paths := oas.Get("paths")
	ii := cat.Get("interactions")
	for i, key := range ii.Keys {
		it := ii.Vals[i]
		if it.S("protocol") != "http" {
			continue
		}
		pi := paths.Get(it.S("path"))
		if !pi.IsObj() {
			return V("c17:path-missing", "interaction %q: paths has no item %q", key, it.S("path"))
		}
		op := pi.Get(strings.ToLower(it.S("httpMethod")))
		if !op.IsObj() {
			return V("c17:operation-missing", "interaction %q: path item has no %s operation", key, strings.ToLower(it.S("httpMethod")))
		}
		decl := map[string]*ON{}
		for _, holder := range []*ON{pi, op} {
			if ps := holder.Get("parameters"); ps.IsArr() {
				// OpenAPI 3.0.3: "The list MUST NOT include duplicated parameters. A unique parameter is defined by a
				// combination of a name and location."
				seen := map[string]bool{}
				for _, p := range ps.Vals {
					k := p.S("in") + "\x00" + p.S("name")
					if seen[k] {
						return V("c17:duplicated-parameter", "interaction %q: the parameter %q in %q is listed twice", key, p.S("name"), p.S("in"))
					}
					seen[k] = true
					if p.S("in") == "path" {
						decl[p.S("name")] = p
					}
				}
			}
		}
		for _, prm := range PathParams(it.S("path")) {
			d := decl[prm]
			if d == nil {
				return V("c17:path-param-undeclared", "interaction %q: path parameter %q is not declared", key, prm)
			}
			if r := d.Get("required"); r == nil || r.Kind != 'b' || !r.Bool {
				return V("c17:path-param-not-required", "interaction %q: path parameter %q is not required:true", key, prm)
			}
		}
		// OpenAPI reads every {name} of the path template as a parameter, also inside a segment ("/files/{name}.json")
		whole := map[string]bool{}
		for _, prm := range PathParams(it.S("path")) {
			whole[prm] = true
		}
		for _, m := range oasTemplateExpr.FindAllStringSubmatch(it.S("path"), -1) {
			if !whole[m[1]] && decl[m[1]] == nil {
				return V("c17:path-template-undeclared:partial-segment", "interaction %q: the path template contains {%s} inside a segment, which OpenAPI reads as a path parameter, and no such parameter is declared", key, m[1])
			}
		}
		if rs := op.Get("responses"); rs != nil {
			if !rs.IsObj() {
				return V("c17:responses-type", "interaction %q: responses is not an object", key)
			}
			for _, code := range rs.Keys {
				if !oasRespKey.MatchString(code) {
					return V("c17:response-key", "interaction %q: response key %q", key, code)
				}
			}
		}
	}
	// nothing invented: every operation of the document is an interaction of the catalog
	for i, p := range paths.Keys {
		pi := paths.Vals[i]
		if !pi.IsObj() {
			return V("c17:path-item-type", "paths[%q] is not an object", p)
		}
		for _, m := range pi.Keys {
			switch m {
			case "get", "post", "put", "patch", "delete":
				if ii.Get("http "+strings.ToUpper(m)+" "+p) == nil {
					return V("c17:extra-operation", "paths[%q].%s has no interaction in the catalog", p, m)
				}
			}
		}
	}
	return nil
}
