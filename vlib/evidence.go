package vlib

import (
	"encoding/binary"
	"encoding/hex"
	"encoding/json"
	"fmt"
	"os"
	"path/filepath"
	"sort"
	"strconv"
	"strings"
	"sync"
)

// Evidence collects what one process explored for one property.
type Evidence struct {
	mu          sync.Mutex
	Property    string
	evaluations int64
	nontrivial  map[uint64]struct{}
	classes     map[string]int64
	excluded    map[string]int64
	samples     []any
	sampleKinds map[string]int
	notes       []string
	exhaustive  map[string]bool
	extra       map[string]any
	replayed    int64
	violations  int64
}

var (
	evMu  sync.Mutex
	evAll = map[string]*Evidence{}
)

func Ev(prop string) *Evidence {
	evMu.Lock()
	defer evMu.Unlock()
	e := evAll[prop]
	if e == nil {
		e = &Evidence{Property: prop, nontrivial: map[uint64]struct{}{}, classes: map[string]int64{}, excluded: map[string]int64{},
			sampleKinds: map[string]int{}, exhaustive: map[string]bool{}, extra: map[string]any{}}
		evAll[prop] = e
	}
	return e
}

// Eval counts one evaluated case.  nontrivial says whether it satisfies the property's rule; hash identifies it.
func (e *Evidence) Eval(hash string, nontrivial bool, classes ...string) {
	e.mu.Lock()
	defer e.mu.Unlock()
	e.evaluations++
	if nontrivial {
		e.nontrivial[hashKey(hash)] = struct{}{}
	}
	for _, c := range classes {
		if c != "" {
			e.classes[c]++
		}
	}
}

func (e *Evidence) Class(c string) {
	e.mu.Lock()
	e.classes[c]++
	e.mu.Unlock()
}

func (e *Evidence) ClassN(c string, n int64) {
	e.mu.Lock()
	e.classes[c] += n
	e.mu.Unlock()
}

func (e *Evidence) Excluded(id string) {
	e.mu.Lock()
	e.excluded[id]++
	e.mu.Unlock()
}

func (e *Evidence) Replayed() {
	e.mu.Lock()
	e.replayed++
	e.mu.Unlock()
}

func (e *Evidence) ViolationSeen() {
	e.mu.Lock()
	e.violations++
	e.mu.Unlock()
}

// Sample keeps up to 3 samples per kind and 12 overall.
func (e *Evidence) Sample(kind string, s any) {
	e.mu.Lock()
	defer e.mu.Unlock()
	if len(e.samples) >= 14 || e.sampleKinds[kind] >= 2 {
		return
	}
	e.sampleKinds[kind]++
	e.samples = append(e.samples, map[string]any{"kind": kind, "case": s})
}

func (e *Evidence) WantSample(kind string) bool {
	e.mu.Lock()
	defer e.mu.Unlock()
	return len(e.samples) < 14 && e.sampleKinds[kind] < 2
}

func (e *Evidence) Note(format string, a ...any) {
	e.mu.Lock()
	if len(e.notes) < 40 {
		e.notes = append(e.notes, fmt.Sprintf(format, a...))
	}
	e.mu.Unlock()
}

func (e *Evidence) Exhaustive(space string, complete bool) {
	e.mu.Lock()
	e.exhaustive[space] = complete
	e.mu.Unlock()
}

func (e *Evidence) Extra(k string, v any) {
	e.mu.Lock()
	e.extra[k] = v
	e.mu.Unlock()
}

func hashKey(h string) uint64 {
	b, err := hex.DecodeString(h)
	if err != nil || len(b) < 8 {
		// not hex: fold the string
		var x uint64 = 1469598103934665603
		for i := 0; i < len(h); i++ {
			x ^= uint64(h[i])
			x *= 1099511628211
		}
		return x
	}
	return binary.BigEndian.Uint64(b[:8])
}

type shardFile struct {
	Property    string           `json:"property"`
	Shard       int              `json:"shard"`
	Evaluations int64            `json:"evaluations"`
	Nontrivial  []string         `json:"nontrivial_keys"`
	Classes     map[string]int64 `json:"classes"`
	Excluded    map[string]int64 `json:"excluded"`
	Samples     []any            `json:"samples"`
	Notes       []string         `json:"notes"`
	Exhaustive  map[string]bool  `json:"exhaustive"`
	Extra       map[string]any   `json:"extra"`
	Replayed    int64            `json:"replayed"`
	Violations  int64            `json:"violations"`
}

// FlushAll writes one shard file per property into $VERIF_OUT.
func FlushAll() {
	out := os.Getenv("VERIF_OUT")
	if out == "" {
		return
	}
	_ = os.MkdirAll(out, 0o755)
	evMu.Lock()
	defer evMu.Unlock()
	for prop, e := range evAll {
		e.mu.Lock()
		sf := shardFile{Property: prop, Shard: Shard(), Evaluations: e.evaluations, Classes: e.classes, Excluded: e.excluded,
			Samples: e.samples, Notes: e.notes, Exhaustive: e.exhaustive, Extra: e.extra, Replayed: e.replayed, Violations: e.violations}
		keys := make([]string, 0, len(e.nontrivial))
		for k := range e.nontrivial {
			keys = append(keys, strconv.FormatUint(k, 36))
		}
		sort.Strings(keys)
		sf.Nontrivial = keys
		b, _ := json.Marshal(sf)
		// one file per process, written atomically: a native fuzz campaign runs many worker processes of this binary at
		// once, each of them ends here
		name := fmt.Sprintf("shard-%s-%s-%d-%d.json", prop, Mode(), Shard(), os.Getpid())
		tmp := filepath.Join(out, "."+name+".tmp")
		if err := os.WriteFile(tmp, b, 0o644); err == nil {
			_ = os.Rename(tmp, filepath.Join(out, name))
		}
		e.mu.Unlock()
	}
}

// --- run configuration from the environment ------------------------------------------------------------------

func Tier() string {
	if t := os.Getenv("VERIF_TIER"); t == "thorough" {
		return "thorough"
	}
	return "quick"
}

func Mode() string {
	if m := os.Getenv("VERIF_MODE"); m != "" {
		return m
	}
	return "search"
}

func envInt(name string, def int) int {
	if s := os.Getenv(name); s != "" {
		if v, err := strconv.Atoi(s); err == nil {
			return v
		}
	}
	return def
}

func Shard() int  { return envInt("VERIF_SHARD", 0) }
func Shards() int { return max(1, envInt("VERIF_SHARDS", 1)) }
func Seed() int   { return envInt("VERIF_SEED", 1) }

func Budget() float64 {
	if s := os.Getenv("VERIF_BUDGET"); s != "" {
		if v, err := strconv.ParseFloat(s, 64); err == nil && v > 0 {
			return v
		}
	}
	return 1.0
}

// Excluded reports the known-finding ids whose exclusion the driver enabled for this run.
func ExcludedIDs() map[string]bool {
	m := map[string]bool{}
	for _, id := range strings.Split(os.Getenv("VERIF_EXCLUDE"), ",") {
		if id = strings.TrimSpace(id); id != "" {
			m[id] = true
		}
	}
	return m
}
