package vlib

import (
	"bufio"
	"encoding/binary"
	"encoding/json"
	"fmt"
	"io"
	"os"
	"os/exec"
	"regexp"
	"strings"
	"sync"
	"time"
)

// Isolated execution: the test binary re-executes itself as a worker (VERIF_WORKER=1, handled by TestMain through
// WorkerMain) and answers oracle requests over a pipe.  A fatal runtime error (stack overflow), an os.Exit or a hang in
// the code under test is then an observation in the parent, not the end of the campaign.

type isoRequest struct {
	Case *Case `json:"case"`
}

type isoResponse struct {
	Violation *Violation `json:"violation,omitempty"`
	Info      string     `json:"info,omitempty"` // free-form observation the oracle wants to hand back (JSON)
}

// WorkerMain is the worker loop.  oracle runs a case and returns its violation (nil = held) and optional info.
func WorkerMain(oracle func(*Case) (*Violation, string)) {
	in := bufio.NewReaderSize(os.Stdin, 1<<16)
	out := bufio.NewWriterSize(os.Stdout, 1<<16)
	for {
		var n uint32
		if err := binary.Read(in, binary.LittleEndian, &n); err != nil {
			return
		}
		buf := make([]byte, n)
		if _, err := io.ReadFull(in, buf); err != nil {
			return
		}
		var req isoRequest
		var resp isoResponse
		if err := json.Unmarshal(buf, &req); err != nil {
			resp.Violation = V("harness:bad-request", "%v", err)
		} else {
			resp.Violation, resp.Info = oracle(req.Case)
		}
		b, _ := json.Marshal(resp)
		_ = binary.Write(out, binary.LittleEndian, uint32(len(b)))
		_, _ = out.Write(b)
		_ = out.Flush()
	}
}

type isoWorker struct {
	cmd  *exec.Cmd
	in   io.WriteCloser
	out  *bufio.Reader
	errb *headWriter
}

type headWriter struct {
	mu sync.Mutex
	b  strings.Builder
}

func (t *headWriter) Write(p []byte) (int, error) {
	t.mu.Lock()
	if t.b.Len() < 1<<15 {
		t.b.Write(p)
	}
	t.mu.Unlock()
	return len(p), nil
}

func (t *headWriter) String() string {
	t.mu.Lock()
	defer t.mu.Unlock()
	return t.b.String()
}

// Iso is a single isolated worker with restart-on-death.
type Iso struct {
	mu       sync.Mutex
	w        *isoWorker
	Restarts int
	Slow     int
	Limit    time.Duration // per request hard limit
	Confirm  time.Duration // limit of the confirmation run in a fresh worker
}

func NewIso() *Iso {
	return &Iso{Limit: 10 * time.Second, Confirm: 60 * time.Second}
}

func startIsoWorker() *isoWorker {
	cmd := exec.Command(os.Args[0], "-test.run=^$")
	cmd.Env = append(os.Environ(), "VERIF_WORKER=1")
	in, _ := cmd.StdinPipe()
	out, _ := cmd.StdoutPipe()
	eb := &headWriter{}
	cmd.Stderr = eb
	if err := cmd.Start(); err != nil {
		panic("harness: cannot start worker: " + err.Error())
	}
	return &isoWorker{cmd: cmd, in: in, out: bufio.NewReaderSize(out, 1<<16), errb: eb}
}

func (w *isoWorker) kill() {
	_ = w.in.Close()
	if w.cmd.Process != nil {
		_ = w.cmd.Process.Kill()
	}
	_ = w.cmd.Wait()
}

func (i *Iso) Close() {
	i.mu.Lock()
	defer i.mu.Unlock()
	if i.w != nil {
		i.w.kill()
		i.w = nil
	}
}

type isoResult struct {
	resp isoResponse
	err  error
}

func (i *Iso) roundTrip(w *isoWorker, payload []byte, limit time.Duration) (isoResponse, string) {
	ch := make(chan isoResult, 1)
	go func() {
		var r isoResult
		if err := binary.Write(w.in, binary.LittleEndian, uint32(len(payload))); err != nil {
			r.err = err
			ch <- r
			return
		}
		if _, err := w.in.Write(payload); err != nil {
			r.err = err
			ch <- r
			return
		}
		var n uint32
		if err := binary.Read(w.out, binary.LittleEndian, &n); err != nil {
			r.err = err
			ch <- r
			return
		}
		buf := make([]byte, n)
		if _, err := io.ReadFull(w.out, buf); err != nil {
			r.err = err
			ch <- r
			return
		}
		r.err = json.Unmarshal(buf, &r.resp)
		ch <- r
	}()
	select {
	case r := <-ch:
		if r.err != nil {
			return isoResponse{}, "death"
		}
		return r.resp, ""
	case <-time.After(limit):
		return isoResponse{}, "hang"
	}
}

var deathFrameRe = regexp.MustCompile(`(?m)^(github\.com/jsightapi/[^\n]+)\([^\n]*$`)

func deathSig(stderr string, state string) string {
	cls := "unknown"
	for _, l := range strings.Split(stderr, "\n") {
		l = strings.TrimSpace(l)
		if strings.HasPrefix(l, "fatal error:") || strings.HasPrefix(l, "panic:") || strings.HasPrefix(l, "runtime:") && cls == "unknown" {
			cls = MsgClass(l)
			if strings.HasPrefix(l, "fatal error:") || strings.HasPrefix(l, "panic:") {
				break
			}
		}
	}
	mm := deathFrameRe.FindAllStringSubmatch(stderr, 3)
	var parts []string
	for _, m := range mm {
		parts = append(parts, strings.TrimPrefix(m[1], "github.com/jsightapi/"))
	}
	return "death:" + cls + ":" + strings.Join(parts, "<-") + ":" + state
}

// Run evaluates the case in the worker.  Worker death and a confirmed hang are violations of the calling property.
func (i *Iso) Run(c *Case) (*Violation, string) {
	i.mu.Lock()
	defer i.mu.Unlock()
	payload, err := json.Marshal(isoRequest{Case: c})
	if err != nil {
		panic(err)
	}
	if i.w == nil {
		i.w = startIsoWorker()
	}
	resp, bad := i.roundTrip(i.w, payload, i.Limit)
	switch bad {
	case "":
		return resp.Violation, resp.Info
	case "death":
		w := i.w
		_ = w.cmd.Wait()
		st := w.errb.String()
		state := ""
		if w.cmd.ProcessState != nil {
			state = w.cmd.ProcessState.String()
		}
		i.w = nil
		i.Restarts++
		head := st
		if len(head) > 1500 {
			head = head[:1500]
		}
		return V(deathSig(st, MsgClass(state)), "worker process died (%s); stderr head:\n%s", state, head), ""
	default: // hang: confirm alone in a fresh worker with a long limit
		i.w.kill()
		i.w = nil
		i.Restarts++
		w2 := startIsoWorker()
		resp2, bad2 := i.roundTrip(w2, payload, i.Confirm)
		if bad2 == "" {
			i.Slow++
			w2.kill()
			return resp2.Violation, resp2.Info
		}
		w2.kill()
		if bad2 == "death" {
			return V(deathSig(w2.errb.String(), "after-timeout"), "worker died on confirmation run; stderr head:\n%.1500s", w2.errb.String()), ""
		}
		return V("hang", "no answer within %v, and none within %v alone in a fresh worker", i.Limit, i.Confirm), ""
	}
}

func (i *Iso) Stats() string {
	return fmt.Sprintf("restarts=%d slow=%d", i.Restarts, i.Slow)
}
