package vlib

import (
	"os"
	"path"
	"path/filepath"
	"regexp"
	"sort"
	"strings"
	"sync"
)

// CorpusEntry is one .jst file of /repo/testdata with the closure of its INCLUDEs.
type CorpusEntry struct {
	Path    string // relative to testdata
	Project *Project
}

var (
	corpusOnce sync.Once
	corpus     []*CorpusEntry
	includeRe  = regexp.MustCompile(`(?m)^[ \t]*INCLUDE[ \t]+"?([^\s"#]+)"?`)
)

func RepoDir() string {
	if r := os.Getenv("VERIF_REPO"); r != "" {
		return r
	}
	return "/repo"
}

// Corpus loads every .jst below /repo/testdata (read at run time from the working tree).
func Corpus() []*CorpusEntry {
	corpusOnce.Do(func() {
		base := filepath.Join(RepoDir(), "testdata")
		var paths []string
		_ = filepath.Walk(base, func(p string, info os.FileInfo, err error) error {
			if err == nil && !info.IsDir() && strings.HasSuffix(p, ".jst") && info.Size() < 200_000 {
				paths = append(paths, p)
			}
			return nil
		})
		sort.Strings(paths)
		for _, p := range paths {
			data, err := os.ReadFile(p)
			if err != nil {
				continue
			}
			rel, _ := filepath.Rel(base, p)
			pr := &Project{Root: filepath.Base(p), Files: map[string][]byte{filepath.Base(p): data}}
			addIncludes(pr, filepath.Dir(p), filepath.Base(p), data, 0)
			corpus = append(corpus, &CorpusEntry{Path: filepath.ToSlash(rel), Project: pr})
		}
	})
	return corpus
}

func addIncludes(pr *Project, baseDir, name string, data []byte, depth int) {
	if depth > 8 {
		return
	}
	for _, m := range includeRe.FindAllSubmatch(data, -1) {
		inc := string(m[1])
		if strings.HasPrefix(inc, "/") || strings.Contains(inc, "..") {
			continue
		}
		rel := path.Join(path.Dir(name), inc)
		if _, ok := pr.Files[rel]; ok {
			continue
		}
		b, err := os.ReadFile(filepath.Join(baseDir, filepath.FromSlash(rel)))
		if err != nil {
			continue
		}
		pr.Files[rel] = b
		addIncludes(pr, baseDir, rel, b, depth+1)
	}
}

// CorpusSingle returns the single-file entries (no INCLUDE closure) not larger than maxLen.
func CorpusSingle(maxLen int) []*CorpusEntry {
	var out []*CorpusEntry
	for _, e := range Corpus() {
		if len(e.Project.Files) == 1 && len(e.Project.RootBytes()) <= maxLen {
			out = append(out, e)
		}
	}
	return out
}
