package vlib

import (
	"fmt"
	"os"
	"path/filepath"
	"regexp"
	"runtime/debug"
	"strings"
	"sync"
	"sync/atomic"

	"github.com/jsightapi/jsight-schema-core/fs"

	"github.com/jsightapi/jsight-api-core/core"
	"github.com/jsightapi/jsight-api-core/directive"
	"github.com/jsightapi/jsight-api-core/jerr"
	"github.com/jsightapi/jsight-api-core/kit"
)

// Outcome is what a build returned, in a form that can cross a process boundary.
type Outcome struct {
	Kind    string `json:"kind"` // ok | err | panic | death | hang | nilcatalog
	Msg     string `json:"msg,omitempty"`
	File    string `json:"file,omitempty"` // project relative
	FileAbs string `json:"file_abs,omitempty"`
	FileNil bool   `json:"file_nil,omitempty"`
	Index   int    `json:"index,omitempty"`
	Line    int    `json:"line,omitempty"`
	Column  int    `json:"column,omitempty"`
	Quote   string `json:"quote,omitempty"`
	ErrText string `json:"err_text,omitempty"` // Error() with project dir stripped
	Panic   string `json:"panic,omitempty"`
	Sig     string `json:"sig,omitempty"`
	Stack   string `json:"stack,omitempty"`
	JSON    []byte `json:"json,omitempty"`
	JSONErr string `json:"json_err,omitempty"`
}

func (o *Outcome) OK() bool  { return o.Kind == "ok" }
func (o *Outcome) Err() bool { return o.Kind == "err" }
func (o *Outcome) Crashed() bool {
	return o.Kind == "panic" || o.Kind == "death" || o.Kind == "hang" || o.Kind == "nilcatalog"
}

func (o *Outcome) Brief() string {
	switch o.Kind {
	case "ok":
		return "ok"
	case "err":
		return fmt.Sprintf("err %q %s:%d:%d idx=%d", o.Msg, o.File, o.Line, o.Column, o.Index)
	default:
		return o.Kind + " " + o.Sig + " " + o.Panic
	}
}

var (
	workDirOnce sync.Once
	workDir     string
	buildSeq    atomic.Int64
)

// WorkDir is the per-process scratch directory (removed by Cleanup).
func WorkDir() string {
	workDirOnce.Do(func() {
		base := os.Getenv("VERIF_TMP")
		if base != "" {
			_ = os.MkdirAll(base, 0o755)
		}
		d, err := os.MkdirTemp(base, "verif-w-")
		if err != nil {
			panic(err)
		}
		workDir = d
		// playground used by single-file (virtual root) builds whose mutated text may contain INCLUDE.
		play := filepath.Join(d, "play")
		_ = os.MkdirAll(filepath.Join(play, "sub"), 0o755)
		_ = os.WriteFile(filepath.Join(play, "inc.jst"), []byte("TYPE @inc\n  {\"id\": 1}\n"), 0o644)
		_ = os.WriteFile(filepath.Join(play, "a.jst"), []byte("INCLUDE root.jst\n"), 0o644)
		_ = os.WriteFile(filepath.Join(play, "self.jst"), []byte("INCLUDE self.jst\n"), 0o644)
		_ = os.WriteFile(filepath.Join(play, "empty.jst"), []byte(""), 0o644)
		_ = os.WriteFile(filepath.Join(play, "resp.jst"), []byte("200 any\n"), 0o644)
		_ = os.WriteFile(filepath.Join(play, "sub", "inc2.jst"), []byte("GET /inc2\n  200 any\n"), 0o644)
	})
	return workDir
}

func Cleanup() {
	if workDir != "" {
		_ = os.RemoveAll(workDir)
	}
}

// WithPlayground returns the project as the builder sees it: a single-file (virtual root) project is built next to the
// fixed playground files, which its text may INCLUDE.
func WithPlayground(p *Project) *Project {
	if p.NeedsDisk() {
		return p
	}
	q := p.Clone()
	q.Root = filepath.Base(p.Root)
	if q.Root != p.Root {
		q.Files[q.Root] = q.Files[p.Root]
		delete(q.Files, p.Root)
	}
	dir := filepath.Dir(PlayRoot())
	for _, n := range []string{"inc.jst", "a.jst", "self.jst", "empty.jst", "resp.jst", "sub/inc2.jst"} {
		if _, ok := q.Files[n]; ok {
			continue
		}
		if b, err := os.ReadFile(filepath.Join(dir, filepath.FromSlash(n))); err == nil {
			q.Files[n] = b
		}
	}
	return q
}

// PlayRoot is the virtual root path of single-file builds.
func PlayRoot() string { return filepath.Join(WorkDir(), "play", "root.jst") }

// Built is an in-process build result.
type Built struct {
	Out  *Outcome
	Api  kit.JApi
	Core *core.JApiCore // set when built through BuildCore
	Dir  string         // project dir ("" for virtual)
	JE   *jerr.JApiError
}

func (b *Built) Close() {
	if b.Dir != "" {
		_ = os.RemoveAll(b.Dir)
		b.Dir = ""
	}
}

// BanEnum resolves a directive name (as in Enumeration.String()) to its enumeration value.
func BanEnum(name string) (directive.Enumeration, bool) {
	for i := 0; i <= int(directive.OperationID); i++ {
		if directive.Enumeration(i).String() == name {
			return directive.Enumeration(i), true
		}
	}
	return 0, false
}

// Build builds the project in this process, converting a panic into an Outcome.
// The caller must Close() the result.
func Build(p *Project) (res *Built) {
	res = &Built{Out: &Outcome{}}
	var dir, rootPath string
	if p.NeedsDisk() {
		dir = filepath.Join(WorkDir(), fmt.Sprintf("p%d", buildSeq.Add(1)))
		if p.FixedDir != "" {
			dir = filepath.Join(WorkDir(), "fixed-"+p.FixedDir)
			_ = os.RemoveAll(dir)
		}
		rp, err := p.Materialize(dir)
		if err != nil {
			panic("harness: cannot materialise project: " + err.Error())
		}
		rootPath = rp
		res.Dir = dir
		if rel, err := filepath.Rel(dir, rp); err == nil && p.RootSpelling != "" {
			sep := string(filepath.Separator)
			switch p.RootSpelling {
			case "dot":
				rootPath = dir + sep + "." + sep + rel
			case "slashes":
				rootPath = dir + sep + sep + rel
			case "updown":
				_ = os.MkdirAll(filepath.Join(dir, "zz_spelling"), 0o755)
				rootPath = dir + sep + "zz_spelling" + sep + ".." + sep + rel
			default:
				panic("harness: unknown root spelling " + p.RootSpelling)
			}
		}
	} else {
		dir = filepath.Dir(PlayRoot())
		rootPath = filepath.Join(dir, filepath.Base(p.Root))
	}
	var opts []core.Option
	if len(p.Banned) > 0 {
		var ee []directive.Enumeration
		for _, n := range p.Banned {
			e, ok := BanEnum(n)
			if !ok {
				panic("harness: unknown directive name " + n)
			}
			ee = append(ee, e)
		}
		if p.BanSplit {
			// one option value per kind, created once per process and reused by every build (an application keeps such
			// values in variables): an option must not be changed by the builds that use it
			for _, e := range ee {
				opts = append(opts, banOptionOf(e))
			}
		} else {
			opts = append(opts, core.WithBannedDirectives(ee...))
		}
	}
	defer func() {
		if r := recover(); r != nil {
			st := string(debug.Stack())
			res.Out = &Outcome{Kind: "panic", Panic: fmt.Sprint(r), Stack: trimStack(st), Sig: PanicSig(st, r)}
		}
	}()
	var j kit.JApi
	var je *jerr.JApiError
	if p.ViaPath || p.NoRoot {
		j, je = kit.NewJapi(rootPath, opts...)
	} else {
		j, je = kit.NewJApiFromFile(fs.NewFile(rootPath, p.RootBytes()), opts...)
	}
	res.Api = j
	res.JE = je
	res.Out = OutcomeOf(j, je, dir)
	return res
}

// OutcomeOf converts the return values of a build.
func OutcomeOf(j kit.JApi, je *jerr.JApiError, dir string) *Outcome {
	if je != nil {
		o := &Outcome{Kind: "err", Msg: je.Msg, Index: int(je.Index), Line: int(je.Line), Column: int(je.Column), Quote: je.Quote}
		if je.File == nil {
			o.FileNil = true
		} else {
			o.FileAbs = je.File.Name()
			o.File = RelName(je.File.Name(), dir)
		}
		o.ErrText = strings.ReplaceAll(je.Error(), dir+string(filepath.Separator), "")
		return o
	}
	if j.Catalog() == nil {
		return &Outcome{Kind: "nilcatalog", Sig: "nil-catalog"}
	}
	return &Outcome{Kind: "ok"}
}

func RelName(name, dir string) string {
	if r, err := filepath.Rel(dir, name); err == nil && !strings.HasPrefix(r, "..") {
		return filepath.ToSlash(r)
	}
	return name
}

var (
	frameFuncRe = regexp.MustCompile(`(?m)^(github\.com/jsightapi/[^\n]+)\([^\n]*$`)
	digitsRe    = regexp.MustCompile(`\d+`)
	hexRe       = regexp.MustCompile(`0x[0-9a-f]+`)
)

// PanicSig builds a signature from the function names of the innermost jsightapi frames (no line numbers)
// plus the message class.
func PanicSig(stack string, r any) string {
	s := stack
	if i := strings.Index(s, "panic("); i >= 0 {
		s = s[i:]
	}
	mm := frameFuncRe.FindAllStringSubmatch(s, 3)
	var parts []string
	for _, m := range mm {
		f := m[1]
		f = strings.TrimPrefix(f, "github.com/jsightapi/")
		parts = append(parts, f)
	}
	return "panic:" + strings.Join(parts, "<-") + "::" + MsgClass(fmt.Sprint(r))
}

func MsgClass(msg string) string {
	msg = hexRe.ReplaceAllString(msg, "X")
	msg = digitsRe.ReplaceAllString(msg, "N")
	if i := strings.IndexByte(msg, '\n'); i >= 0 {
		msg = msg[:i]
	}
	if len(msg) > 100 {
		msg = msg[:100]
	}
	return msg
}

func trimStack(st string) string {
	if len(st) > 6000 {
		st = st[:6000]
	}
	return st
}

// Safely runs f and converts a panic into (sig, text).
func Safely(f func()) (sig, text, stack string) {
	defer func() {
		if r := recover(); r != nil {
			st := string(debug.Stack())
			sig, text, stack = PanicSig(st, r), fmt.Sprint(r), trimStack(st)
		}
	}()
	f()
	return "", "", ""
}

// BuildCore builds through core.NewJApiCore directly (needed for the verif-tag accessors).  The caller must call done().
func BuildCore(p *Project) (c *core.JApiCore, out *Outcome, dir string, done func()) {
	done = func() {}
	var rootPath string
	if p.NeedsDisk() {
		dir = filepath.Join(WorkDir(), fmt.Sprintf("p%d", buildSeq.Add(1)))
		if p.FixedDir != "" {
			dir = filepath.Join(WorkDir(), "fixed-"+p.FixedDir)
			_ = os.RemoveAll(dir)
		}
		rp, err := p.Materialize(dir)
		if err != nil {
			panic("harness: cannot materialise project: " + err.Error())
		}
		rootPath = rp
		d := dir
		done = func() { _ = os.RemoveAll(d) }
	} else {
		dir = filepath.Dir(PlayRoot())
		rootPath = filepath.Join(dir, filepath.Base(p.Root))
	}
	var opts []core.Option
	if len(p.Banned) > 0 {
		var ee []directive.Enumeration
		for _, n := range p.Banned {
			e, ok := BanEnum(n)
			if !ok {
				panic("harness: unknown directive name " + n)
			}
			ee = append(ee, e)
		}
		if p.BanSplit {
			// one option value per kind, created once per process and reused by every build (an application keeps such
			// values in variables): an option must not be changed by the builds that use it
			for _, e := range ee {
				opts = append(opts, banOptionOf(e))
			}
		} else {
			opts = append(opts, core.WithBannedDirectives(ee...))
		}
	}
	out = &Outcome{}
	sig, text, st := Safely(func() {
		c = core.NewJApiCore(fs.NewFile(rootPath, p.RootBytes()), opts...)
		je := c.BuildCatalog()
		if je != nil {
			out = OutcomeOf(kit.JApi{}, je, dir)
		} else {
			out = &Outcome{Kind: "ok"}
		}
	})
	if sig != "" {
		out = &Outcome{Kind: "panic", Panic: text, Sig: sig, Stack: st}
	}
	return
}

// LineOf returns the 1-based line of a byte index (LF / CRLF / CR aware through RefLocation; 0 for mixed endings).
func LineOf(content []byte, idx int) int {
	l, _, _, ok := RefLocation(content, idx)
	if !ok {
		return 0
	}
	return l
}

var (
	banOptMu sync.Mutex
	banOpts  = map[directive.Enumeration]core.Option{}
)

// BanOption returns the process-wide option value that bans one directive kind (by its name).
func BanOption(name string) core.Option {
	e, ok := BanEnum(name)
	if !ok {
		panic("harness: unknown directive name " + name)
	}
	return banOptionOf(e)
}

func banOptionOf(e directive.Enumeration) core.Option {
	banOptMu.Lock()
	defer banOptMu.Unlock()
	o, ok := banOpts[e]
	if !ok {
		o = core.WithBannedDirectives(e)
		banOpts[e] = o
	}
	return o
}
