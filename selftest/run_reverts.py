#!/usr/bin/env python3
"""Sensitivity self-test: revert each repaired defect in a scratch worktree of /repo (outside /repo and /verif) and require
the property's quick check to report a violation (exit 1).  Usage: run_reverts.py [id ...]   Results: selftest/reverts_result.json"""
import json, os, subprocess, sys, shutil, tempfile, re
ROOT = os.path.dirname(os.path.dirname(os.path.abspath(__file__)))
ENV = dict(os.environ, GOFLAGS="-mod=mod", GOPROXY="off", GOSUMDB="off", GOTOOLCHAIN="local")

def sh(cmd, cwd=None, env=None, timeout=3600):
    r = subprocess.run(cmd, cwd=cwd, env=env or ENV, stdout=subprocess.PIPE, stderr=subprocess.STDOUT, text=True, errors="replace", timeout=timeout)
    return r.returncode, r.stdout

def main():
    table = json.load(open(os.path.join(ROOT, "selftest", "reverts.json")))
    want = set(sys.argv[1:])
    resp = os.path.join(ROOT, "selftest", "reverts_result.json")
    res = json.load(open(resp)) if os.path.exists(resp) else {}
    for e in table:
        if want and e["id"] not in want:
            continue
        d = tempfile.mkdtemp(prefix="revwt-", dir="/tmp"); os.rmdir(d)
        rc, out = sh(["git", "-C", "/repo", "worktree", "add", "-q", "--detach", d, "HEAD"])
        entry = {"commits": e["commits"], "props": {}}
        try:
            ok = True
            if e.get("patch"):
                # the plain revert conflicts with later commits: a hand-resolved reverse patch is applied instead
                rc, out = sh(["git", "-C", d, "apply", os.path.join(ROOT, "selftest", e["patch"])])
                if rc != 0:
                    entry["revert"] = "patch does not apply: " + out[-300:]
                    ok = False
                entry["patch"] = e["patch"]
            for c in ([] if e.get("patch") else e["commits"]):
                rc, out = sh(["git", "-C", d, "revert", "--no-commit", c])
                if rc != 0:
                    entry["revert"] = "conflict: " + out[-300:]
                    ok = False
                    break
            if ok:
                rc, out = sh(["go", "build", "-tags", "verif", "./..."], cwd=d)
                if rc != 0:
                    entry["revert"] = "does not build: " + out[-300:]
                    ok = False
            if ok:
                rc, out = sh(["go", "test", "-vet=off", "-count=1", "./..."], cwd=d)
                entry["suite_passes_with_revert"] = (rc == 0)
                for p in e["props"]:
                    rc, out = sh([os.path.join(ROOT, "check"), p, "quick"], cwd=ROOT, env=dict(ENV, VERIF_REPO=d))
                    sigs = sorted(set(re.findall(r"^\s+(\S+) :: ", out, re.M)))[:3]
                    entry["props"][p] = {"exit": rc, "violations": len(re.findall(r"^VIOLATION", out, re.M)), "signatures": sigs}
                    print(e["id"], p, "exit", rc, sigs[:2], flush=True)
        finally:
            sh(["git", "-C", "/repo", "worktree", "remove", "--force", d]); shutil.rmtree(d, ignore_errors=True)
        res[e["id"]] = entry
        json.dump(res, open(resp, "w"), indent=1)

if __name__ == "__main__":
    main()
