package mdl

import (
	"fmt"
	"path"
	"sort"
	"strings"
)

// Transformations of the directive tree that must not change its meaning:
// Split (runs of sibling directives moved to INCLUDEd files) and Macroize (runs moved to MACROs and PASTEd).

type run struct {
	parent *Dir // nil = root
	from   int  // indexes into the sibling list
	to     int  // exclusive
}

func siblings(root *[]*Dir, p *Dir) *[]*Dir {
	if p == nil {
		return root
	}
	return &p.Children
}

// Split replaces up to maxCuts runs of sibling directives by INCLUDE nodes (nested up to maxDepth).  JSIGHT stays in the
// root file.  The returned tree shares no node with the input; IDs are preserved; INCLUDE nodes get fresh IDs.
// cuts reports how many INCLUDEs were created and how many of them are not at top level.
func Split(r Rnd, tree []*Dir, maxCuts, maxDepth int) (out []*Dir, cuts, nested int) {
	out, cuts, nested, _ = SplitRagged(r, tree, maxCuts, maxDepth, false)
	return
}

// openLast makes a run "ragged": its last directive keeps only its first k children (and must then use the implicit
// context form, an unclosed '(' cannot span files or macro bodies); the other children are returned, the caller puts them
// after the INCLUDE / PASTE node, where the context left open by the piece adopts them exactly as in the unsplit text.
func openLast(r Rnd, piece []*Dir) (hoisted []*Dir) {
	d := piece[len(piece)-1]
	switch d.Kw {
	case "Description", "INCLUDE", "PASTE", "MACRO":
		return nil
	}
	if len(d.Children) == 0 || d.Explicit == "yes" {
		return nil // (a context that was closed on purpose stays closed)
	}
	for _, c := range d.Children {
		if c.Kw == "INCLUDE" || c.Kw == "PASTE" {
			return nil
		}
	}
	k := r.Intn(len(d.Children))
	hoisted = append([]*Dir(nil), d.Children[k:]...)
	d.Children = append([]*Dir(nil), d.Children[:k]...)
	d.Explicit = "no"
	return hoisted
}

// openLastURL is openLast for macro bodies.  PASTE is opaque while the document is scanned: what follows it must be legal
// in the context of the PASTE itself, and a macro body cannot end with a directive that still expects its body.  The only
// shape that is legal by construction is a root-level URL (http) whose trailing methods are written after the PASTE.
func openLastURL(r Rnd, body []*Dir) (hoisted []*Dir) {
	d := body[len(body)-1]
	if d.Kw != "URL" {
		return nil
	}
	first := -1
	for i, c := range d.Children {
		switch c.Kw {
		case "GET", "POST", "PUT", "PATCH", "DELETE":
			if first < 0 {
				first = i
			}
		default:
			if first >= 0 {
				return nil // something that is not a method after the first method
			}
			if c.Kw == "Protocol" || c.Kw == "Method" || c.Kw == "PASTE" || c.Kw == "INCLUDE" {
				return nil
			}
		}
	}
	if first < 0 {
		return nil
	}
	k := first + r.Intn(len(d.Children)-first)
	hoisted = append([]*Dir(nil), d.Children[k:]...)
	d.Children = append([]*Dir(nil), d.Children[:k]...)
	d.Explicit = "no"
	return hoisted
}

// openFirst takes the last one or two children away from a directive (which must then use the implicit context form) and
// returns them: they become the beginning of the macro body that is pasted right after that directive.
func openFirst(r Rnd, p *Dir) []*Dir {
	// only directives that never expect a body of their own: a response or a Request that lost its Body child would be
	// followed by whatever comes next (a ')' if it is the last directive of another macro body) where its schema is expected
	switch p.Kw {
	case "URL", "GET", "POST", "PUT", "PATCH", "DELETE", "TAG", "INFO", "SERVER", "Method":
	default:
		return nil
	}
	if len(p.Children) == 0 || p.Explicit == "yes" {
		return nil
	}
	k := 1
	if len(p.Children) >= 2 && chance(r, 1, 2) {
		k = 2
	}
	cut := len(p.Children) - k
	for _, c := range p.Children[cut:] {
		if !inMacroOK(c) || c.Kw == "PASTE" || c.Kw == "INCLUDE" {
			return nil
		}
	}
	moved := append([]*Dir(nil), p.Children[cut:]...)
	p.Children = append([]*Dir(nil), p.Children[:cut]...)
	p.Explicit = "no"
	return moved
}

// SplitRagged is Split; with ragged set, about a third of the pieces end with a directive whose remaining children stay
// in the including file (a cut at a directive boundary that is not a sub-tree boundary).
func SplitRagged(r Rnd, tree []*Dir, maxCuts, maxDepth int, ragged bool) (out []*Dir, cuts, nested, raggedCuts int) {
	out = CloneTree(tree)
	nextID := 100000
	fileNo := 0
	usedNames := map[string]bool{}
	var splitList func(list *[]*Dir, isRoot bool, dir string, depth int)
	splitList = func(list *[]*Dir, isRoot bool, dir string, depth int) {
		// top-down: first (maybe) cut a run at this level, then descend – into the new file with its own directory,
		// and into the children of the directives that stayed
		lo := 0
		if isRoot {
			lo = 1 // JSIGHT stays first in the root file
		}
		if cuts < maxCuts && depth < maxDepth && lo < len(*list) && chance(r, 1, 2) {
			from := lo + r.Intn(len(*list)-lo)
			to := from + 1 + r.Intn(len(*list)-from)
			piece := append([]*Dir(nil), (*list)[from:to]...)
			fileNo++
			sub := dir
			if chance(r, 1, 3) {
				// directory and file names come from small pools so that different includers write the same relative
				// name for different files ("a/part.jst" from the root and from inside a/)
				sub = path.Join(dir, pick(r, []string{"a", "b", fmt.Sprintf("d%d", fileNo)}))
			}
			base := fmt.Sprintf("inc%d.jst", fileNo)
			if chance(r, 1, 2) {
				if cand := pick(r, []string{"part.jst", "x.jst"}); !usedNames[path.Join(sub, cand)] {
					base = cand
				}
			}
			name := path.Join(sub, base)
			usedNames[name] = true
			rel := strings.TrimPrefix(strings.TrimPrefix(name, dir), "/")
			nextID++
			inc := &Dir{ID: nextID, Kw: "INCLUDE", Params: []Param{{Text: rel}}, IncludeFile: name, IncludeDirs: piece}
			cuts++
			if !isRoot || depth > 0 {
				nested++
			}
			var hoisted []*Dir
			if ragged && chance(r, 1, 3) {
				if hoisted = openLast(r, piece); hoisted != nil {
					raggedCuts++
				}
			}
			nl := append([]*Dir(nil), (*list)[:from]...)
			nl = append(nl, inc)
			nl = append(nl, hoisted...)
			nl = append(nl, (*list)[to:]...)
			*list = nl
		}
		for _, d := range *list {
			switch {
			case d.Kw == "INCLUDE":
				splitList(&d.IncludeDirs, false, path.Dir("/" + d.IncludeFile)[1:], depth+1)
			case len(d.Children) > 0 && chance(r, 2, 3):
				splitList(&d.Children, false, dir, depth)
			}
		}
	}
	splitList(&out, true, "", 0)
	return
}

var macroAllowed = map[string]bool{"INFO": true, "Title": true, "Version": true, "Description": true, "SERVER": true, "BaseUrl": true, "URL": true,
	"GET": true, "POST": true, "PUT": true, "PATCH": true, "DELETE": true, "Body": true, "Request": true, "Path": true, "Headers": true, "Query": true,
	"TYPE": true, "ENUM": true, "PASTE": true}

func inMacroOK(d *Dir) bool {
	if macroAllowed[d.Kw] {
		return true
	}
	return len(d.Kw) == 3 && d.Kw[0] >= '1' && d.Kw[0] <= '5' // response code
}

var pasteParents = map[string]bool{"URL": true, "GET": true, "POST": true, "PUT": true, "PATCH": true, "DELETE": true, "Request": true, "INFO": true, "SERVER": true}

func pasteOK(p *Dir) bool {
	if p == nil {
		return true
	}
	if pasteParents[p.Kw] {
		// an URL with json-rpc children cannot mix (PASTE is neither): keep to http URLs
		if p.Kw == "URL" {
			for _, c := range p.Children {
				if c.Kw == "Protocol" || c.Kw == "Method" {
					return false
				}
			}
		}
		return true
	}
	return len(p.Kw) == 3 && p.Kw[0] >= '1' && p.Kw[0] <= '5'
}

// Macroize replaces up to maxMacros runs of sibling directives by PASTE @m<i> and adds the MACRO definitions at random
// root positions (before or after their use).  Macro bodies may be macroized again (nesting).
// It returns the new tree, the number of macros and the maximal nesting depth.
func Macroize(r Rnd, tree []*Dir, maxMacros int) (out []*Dir, macros, depthMax int) {
	out, macros, depthMax, _ = MacroizeRagged(r, tree, maxMacros, false)
	return
}

// MacroizeRagged is Macroize; with ragged set, about a third of the macro bodies end with a directive whose remaining
// children are written after the PASTE (PASTE is textual: the context the body leaves open adopts them).
func MacroizeRagged(r Rnd, tree []*Dir, maxMacros int, ragged bool) (out []*Dir, macros, depthMax, raggedMacros int) {
	leading := 0
	defer func() { raggedMacros += leading }()
	out = CloneTree(tree)
	nextID := 200000
	var defs []*Dir
	var walk func(list *[]*Dir, parent *Dir, depth int)
	walk = func(list *[]*Dir, parent *Dir, depth int) {
		for _, d := range *list {
			if len(d.Children) > 0 && d.Kw != "MACRO" && chance(r, 2, 3) {
				walk(&d.Children, d, depth)
			}
		}
		if macros >= maxMacros || !pasteOK(parent) || !chance(r, 1, 2) {
			return
		}
		lo := 0
		if parent == nil {
			lo = 1
		}
		if lo >= len(*list) {
			return
		}
		from := lo + r.Intn(len(*list)-lo)
		// extend the run while the directives may be direct children of a MACRO
		to := from
		for to < len(*list) && inMacroOK((*list)[to]) && (*list)[to].Kw != "PASTE" && (to == from || chance(r, 2, 3)) {
			to++
		}
		pair := false
		if ragged && parent == nil && chance(r, 1, 4) {
			// an URL group in its implicit form directly followed by a method with its own path: inside the macro body the
			// method has to leave the URL's context for the macro's, not for the root
			var cand []int
			for i := lo; i+1 < len(*list); i++ {
				if d, n := (*list)[i], (*list)[i+1]; d.Kw == "URL" && len(d.Children) > 0 && d.Explicit != "yes" && isMethodKw(n.Kw) && len(n.Params) > 0 {
					cand = append(cand, i)
				}
			}
			if len(cand) > 0 {
				i := cand[r.Intn(len(cand))]
				from, to, pair = i, i+2, true
				(*list)[i].Explicit = "no"
			}
		}
		if !pair && ragged && parent == nil && chance(r, 1, 2) {
			// prefer a run that ends with an URL group, the shape that can be left open (openLastURL)
			var cand []int
			for i := lo; i < len(*list); i++ {
				if d := (*list)[i]; d.Kw == "URL" && len(d.Children) > 0 {
					cand = append(cand, i)
				}
			}
			if len(cand) > 0 {
				i := cand[r.Intn(len(cand))]
				from, to = i, i+1
				if i > lo && inMacroOK((*list)[i-1]) && (*list)[i-1].Kw != "PASTE" && chance(r, 1, 3) {
					from = i - 1
				}
			}
		}
		if to == from {
			return
		}
		// URL-level Tags/Path must stay before the methods of their URL: a run taken from an URL never starts at a method
		// while Tags/Path siblings remain after it – guaranteed because runs are contiguous and those come first.
		body := append([]*Dir(nil), (*list)[from:to]...)
		if ragged && from > lo && chance(r, 1, 3) {
			// the body begins with the last children of the directive written before the run: PASTE is textual, the
			// context that directive leaves open adopts them when the macro is expanded
			if moved := openFirst(r, (*list)[from-1]); moved != nil {
				body = append(moved, body...)
				leading++
			}
		}
		macros++
		name := fmt.Sprintf("@m%d", macros)
		nextID += 2
		paste := &Dir{ID: nextID, Kw: "PASTE", Params: []Param{{Text: name, NoQuote: true}}}
		def := &Dir{ID: nextID + 1, Kw: "MACRO", Params: []Param{{Text: name, NoQuote: true}}, Children: body, Explicit: "yes"}
		if depth+1 > depthMax {
			depthMax = depth + 1
		}
		if chance(r, 1, 2) {
			walk(&def.Children, def, depth+1) // nested macros inside the body
		}
		var hoisted []*Dir
		if ragged && parent == nil && chance(r, 1, 2) {
			if hoisted = openLastURL(r, def.Children); hoisted != nil {
				raggedMacros++
			}
		}
		defs = append(defs, def)
		nl := append([]*Dir(nil), (*list)[:from]...)
		nl = append(nl, paste)
		nl = append(nl, hoisted...)
		nl = append(nl, (*list)[to:]...)
		*list = nl
	}
	walk(&out, nil, 0)
	// place the definitions at root level (after JSIGHT), before or after their use
	for _, def := range defs {
		at := 1 + r.Intn(len(out))
		if at > len(out) {
			at = len(out)
		}
		// never inside an implicit greedy context: root-level positions are between root blocks, which is safe because the
		// MACRO is explicit "( )" and every root block starts with a directive that is allowed at root
		nl := append([]*Dir(nil), out[:at]...)
		nl = append(nl, def)
		nl = append(nl, out[at:]...)
		out = nl
	}
	return
}

// Twin adds to the model a copy of one grouped HTTP resource under another path (same methods, same children), so that
// one piece of text can legally be used from two places.  It returns the indexes of the two blocks, or ok=false.
func Twin(r Rnd, doc *Doc) (a, b int, ok bool) {
	var cands []int
	for i, bl := range doc.Blocks {
		if res := bl.Resource; res != nil && res.Grouped && len(res.RPC) == 0 && len(res.Methods) > 0 {
			cands = append(cands, i)
		}
	}
	if len(cands) == 0 {
		return 0, 0, false
	}
	a = pick(r, cands)
	src := doc.Blocks[a].Resource
	twin := &Resource{Path: "/twin" + src.Path, Grouped: true, Tags: src.Tags}
	for _, m := range src.Methods {
		c := *m
		c.Path = twin.Path
		c.OperationID = ""
		var order []string
		for _, o := range m.ChildOrder {
			if o != "OperationId" {
				order = append(order, o)
			}
		}
		c.ChildOrder = order
		twin.Methods = append(twin.Methods, &c)
	}
	// the original keeps no OperationId either, so that both URLs have identical children
	for _, m := range src.Methods {
		m.OperationID = ""
		var order []string
		for _, o := range m.ChildOrder {
			if o != "OperationId" {
				order = append(order, o)
			}
		}
		m.ChildOrder = order
	}
	// URL-level Path stays with each URL (its parameters are per prefix); children = Tags?, Path?, methods
	if src.PathSchema != nil {
		twin.PathSchema = src.PathSchema
	}
	doc.Blocks = append(doc.Blocks, &Block{Resource: twin})
	return a, len(doc.Blocks) - 1, true
}

// ShareChildren rewrites the tree so that the two directives tagged tagA and tagB (URL blocks with identical children)
// take their children from one shared piece: an INCLUDEd file (mode "include") or a MACRO (mode "macro").
func ShareChildren(tree []*Dir, tagA, tagB, mode string) ([]*Dir, bool) {
	out := CloneTree(tree)
	var da, db *Dir
	for _, d := range out {
		if d.Tag == tagA {
			da = d
		}
		if d.Tag == tagB {
			db = d
		}
	}
	if da == nil || db == nil || len(da.Children) == 0 || len(da.Children) != len(db.Children) {
		return nil, false
	}
	piece := da.Children
	keep := 0
	if mode == "macro" {
		// a Tags directive cannot be a direct child of a MACRO: the URL-level Tags stays where it is
		for keep < len(piece) && piece[keep].Kw == "Tags" {
			keep++
		}
		// (Tags and Path come first in an URL; a Tags written after Path stays in the piece only if it is not there)
		for _, x := range piece[keep:] {
			if x.Kw == "Tags" {
				return nil, false
			}
		}
		if keep == len(piece) {
			return nil, false
		}
	}
	headA, headB := append([]*Dir(nil), da.Children[:keep]...), append([]*Dir(nil), db.Children[:keep]...)
	piece = piece[keep:]
	switch mode {
	case "include":
		mk := func(id int) *Dir {
			return &Dir{ID: id, Kw: "INCLUDE", Params: []Param{{Text: "shared.jst"}}, IncludeFile: "shared.jst", IncludeDirs: piece}
		}
		da.Children = []*Dir{mk(500001)}
		db.Children = []*Dir{mk(500002)}
	case "macro":
		da.Children = append(headA, &Dir{ID: 500001, Kw: "PASTE", Params: []Param{{Text: "@shared", NoQuote: true}}})
		db.Children = append(headB, &Dir{ID: 500002, Kw: "PASTE", Params: []Param{{Text: "@shared", NoQuote: true}}})
		out = append(out, &Dir{ID: 500003, Kw: "MACRO", Params: []Param{{Text: "@shared", NoQuote: true}}, Children: piece, Explicit: "yes"})
	}
	return out, true
}

// Chain distributes the root-level directives that follow JSIGHT over a chain of depth nested INCLUDE files: file i holds
// some of them before and some after its INCLUDE of file i+1, the deepest file holds the middle of the document; the order
// of the text is preserved, so the chained project says what the tree says.  Every third file or so lives one directory
// deeper than its includer (INCLUDE paths are relative to the including file).  Returns nil when there is nothing to move.
func Chain(r Rnd, tree []*Dir, depth int) []*Dir {
	out := CloneTree(tree)
	if len(out) < 2 || depth < 1 {
		return nil
	}
	rest := out[1:]
	peak := r.Intn(len(rest))
	level := make([]int, len(rest))
	draw := func(n int) []int {
		ls := make([]int, n)
		for i := range ls {
			ls[i] = r.Intn(depth + 1)
		}
		sort.Ints(ls)
		return ls
	}
	up := draw(peak)
	down := draw(len(rest) - peak - 1)
	copy(level, up)
	level[peak] = depth
	for i, l := range down {
		level[len(rest)-1-i] = l
	}
	dirs := make([]string, depth+1)
	names := make([]string, depth+1)
	for i := 1; i <= depth; i++ {
		dirs[i] = dirs[i-1]
		if chance(r, 1, 3) {
			dirs[i] = path.Join(dirs[i-1], pick(r, []string{"a", "b", "s"}))
		}
		names[i] = path.Join(dirs[i], fmt.Sprintf("c%d.jst", i))
	}
	var build func(lvl, lo, hi int) []*Dir // the directives rest[lo:hi] all have level >= lvl
	build = func(lvl, lo, hi int) []*Dir {
		a, b := lo, hi
		for a < hi && level[a] == lvl {
			a++
		}
		for b > a && level[b-1] == lvl {
			b--
		}
		list := append([]*Dir(nil), rest[lo:a]...)
		if lvl < depth {
			rel := strings.TrimPrefix(strings.TrimPrefix(names[lvl+1], dirs[lvl]), "/")
			list = append(list, &Dir{ID: 200000 + lvl, Kw: "INCLUDE", Params: []Param{{Text: rel}}, IncludeFile: names[lvl+1], IncludeDirs: build(lvl+1, a, b)})
		} else {
			list = append(list, rest[a:b]...)
		}
		return append(list, rest[b:hi]...)
	}
	return append([]*Dir{out[0]}, build(0, 0, len(rest))...)
}
