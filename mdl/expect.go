package mdl

import (
	"net/url"
	"strconv"
	"strings"

	"verif/vlib"
)

// Expected JDoc Exchange catalog, computed from the model only.  Every rule cites what it was calibrated on:
// the JDoc Exchange description and pinned snapshots under /repo/testdata (e.g. others/basic-editor-examples/cats.json,
// req.japi.tags/tags_1.json, req.japi.http_method.path/*.json) – never the output of the build under test.

// AnyString marks an expected string whose exact value is produced by the trusted schema library (examples).
const AnyString = "\x00ANY"

func oS(s string) *vlib.ON { return &vlib.ON{Kind: 's', Str: s} }
func oB(b bool) *vlib.ON   { return &vlib.ON{Kind: 'b', Bool: b} }

type ob struct{ n *vlib.ON }

func newObj() *ob { return &ob{&vlib.ON{Kind: 'o'}} }
func (o *ob) set(k string, v *vlib.ON) *ob {
	o.n.Keys = append(o.n.Keys, k)
	o.n.Vals = append(o.n.Vals, v)
	return o
}
func (o *ob) str(k, v string) *ob { return o.set(k, oS(v)) }
func (o *ob) optStr(k, v string) *ob {
	if v != "" {
		o.set(k, oS(v))
	}
	return o
}
func arr(items ...*vlib.ON) *vlib.ON { return &vlib.ON{Kind: 'a', Vals: items} }

// ---- schema content --------------------------------------------------------------------------------------------

type used struct {
	list []string
	seen map[string]bool
}

func (u *used) add(n string) {
	if u.seen == nil {
		u.seen = map[string]bool{}
	}
	if !u.seen[n] {
		u.seen[n] = true
		u.list = append(u.list, n)
	}
}

func rulesON(s *Schema) *vlib.ON {
	if len(s.Rules) == 0 {
		return nil
	}
	var items []*vlib.ON
	for _, r := range s.Rules {
		items = append(items, newObj().str("key", r.Key).str("tokenType", r.Tok).str("scalarValue", r.SVal).n)
	}
	return arr(items...)
}

// contentON builds the content node of a schema; key == nil for roots and array items.
func contentON(s *Schema, key *string, inArray bool, u *used) *vlib.ON {
	o := newObj()
	if key != nil {
		o.str("key", *key)
	}
	optional := s.Optional() || inArray
	switch s.Kind {
	case "obj", "arr":
		tt := map[string]string{"obj": "object", "arr": "array"}[s.Kind]
		o.str("tokenType", tt).str("type", tt)
		var kids []*vlib.ON
		if s.Kind == "obj" {
			for _, p := range s.Props {
				k := p.Key
				kids = append(kids, contentON(p.Val, &k, false, u))
			}
		} else {
			for _, it := range s.Items {
				kids = append(kids, contentON(it, nil, true, u))
			}
		}
		o.set("children", arr(kids...))
	case "ref":
		u.add(s.Ref)
		o.str("tokenType", "reference").str("type", s.Ref).str("scalarValue", s.Ref)
	case "or":
		for _, n := range s.Or {
			u.add(n)
		}
		o.str("tokenType", "reference").str("type", "mixed").str("scalarValue", strings.Join(s.Or, " | "))
	default:
		tok := map[string]string{"int": "number", "float": "number", "str": "string", "bool": "boolean", "null": "null"}[s.Kind]
		typ := map[string]string{"int": "integer", "float": "float", "str": "string", "bool": "boolean", "null": "null"}[s.Kind]
		for _, r := range s.Rules {
			if r.Key == "enum" {
				typ = "enum"
			}
			if r.Key == "type" {
				typ = r.SVal
				if strings.HasPrefix(r.SVal, "@") {
					u.add(r.SVal)
				}
			}
		}
		sv := s.Lit
		if s.Kind == "str" {
			sv = s.Str
		}
		o.str("tokenType", tok).str("type", typ).str("scalarValue", sv)
	}
	if r := rulesON(s); r != nil {
		o.set("rules", r)
	}
	o.optStr("note", s.Note)
	o.set("optional", oB(optional))
	return o.n
}

// exampleOf returns the compact JSON example of a schema without references and rules, or AnyString.
func exampleOf(s *Schema) string {
	var sb strings.Builder
	ok := true
	var rec func(s *Schema)
	rec = func(s *Schema) {
		if len(s.Rules) > 0 {
			ok = false
		}
		switch s.Kind {
		case "obj":
			sb.WriteByte('{')
			for i, p := range s.Props {
				if i > 0 {
					sb.WriteByte(',')
				}
				sb.WriteString(lit(p.Key) + ":")
				rec(p.Val)
			}
			sb.WriteByte('}')
		case "arr":
			sb.WriteByte('[')
			for i, it := range s.Items {
				if i > 0 {
					sb.WriteByte(',')
				}
				rec(it)
			}
			sb.WriteByte(']')
		case "ref", "or":
			ok = false
		default:
			sb.WriteString(s.Lit)
		}
	}
	rec(s)
	if !ok {
		return AnyString
	}
	return sb.String()
}

func jsightSchemaON(s *Schema, withExample bool) *vlib.ON {
	u := &used{}
	o := newObj().set("content", contentON(s, nil, false, u))
	if withExample {
		o.str("example", exampleOf(s))
	}
	o.str("notation", "jsight")
	if len(u.list) > 0 {
		var items []*vlib.ON
		for _, n := range u.list {
			items = append(items, oS(n))
		}
		o.set("usedUserTypes", arr(items...))
	}
	return o.n
}

func regexSchemaON(pattern string) *vlib.ON {
	return newObj().str("content", pattern).str("example", AnyString).str("notation", "regex").n
}

func pseudoSchemaON(n string) *vlib.ON { return newObj().str("notation", n).n }

func bodyON(b *Body) *vlib.ON {
	switch b.Kind {
	case "any", "empty":
		return newObj().str("format", "binary").set("schema", pseudoSchemaON(b.Kind)).n
	case "regex":
		return newObj().str("format", "plainString").set("schema", regexSchemaON(b.Pattern)).n
	case "type":
		return newObj().str("format", "json").set("schema", jsightSchemaON(&Schema{Kind: "ref", Ref: b.Type}, true)).n
	case "array":
		return newObj().str("format", "json").set("schema", jsightSchemaON(&Schema{Kind: "arr", Items: []*Schema{{Kind: "ref", Ref: b.Type}}}, true)).n
	default:
		return newObj().str("format", "json").set("schema", jsightSchemaON(b.Schema, true)).n
	}
}

func descText(lines []string) string {
	// relative indentation is kept, the common prefix (here: none, the first line has no relative indentation) removed
	return strings.TrimRight(strings.Join(lines, "\n"), "\r\n\t ")
}

// PathTagTitle / PathTagName: the tag an interaction gets when no Tags directive applies.
func PathTagTitle(path string) string {
	for _, seg := range strings.Split(path, "/") {
		if seg != "" && seg != "." {
			return "/" + seg
		}
	}
	return "/"
}

func PathTagName(title string) string {
	if title == "/" {
		return "@_"
	}
	t := strings.Replace(title, "/", "@", 1)
	t = strings.ReplaceAll(t, "_", "__")
	t = url.PathEscape(t)
	return strings.ReplaceAll(t, "%", "_")
}

// anyPathNode is the node of a path parameter no Path directive describes.
func anyPathNode(param string) *vlib.ON {
	return newObj().str("key", param).str("tokenType", "string").str("type", "any").str("scalarValue", "").
		set("rules", arr(newObj().str("key", "type").str("tokenType", "string").str("scalarValue", "any").n)).
		set("optional", oB(false)).n
}

// Expect computes the expected catalog.
func Expect(doc *Doc) *vlib.ON {
	top := newObj()
	// path parameter definitions, shared between interactions by (prefix, parameter)
	defs := map[string]*Schema{}
	collect := func(path string, s *Schema) {
		if s == nil {
			return
		}
		for _, p := range s.Props {
			defs[PathPrefix(path, p.Key)+"|"+p.Key] = p.Val
		}
	}
	for _, res := range doc.Resources() {
		collect(res.Path, res.PathSchema)
		for _, m := range res.Methods {
			collect(m.Path, m.PathSchema)
		}
	}
	// tags: explicit TAGs first (document order), then path tags in order of first use
	type tagAcc struct {
		name, title string
		desc        []string
		http, rpc   []string
	}
	var tagOrder []string
	tags := map[string]*tagAcc{}
	for _, t := range doc.Tags() {
		title := t.Annotation
		if title == "" {
			title = t.Name // pinned by testdata/jsight_0.3/req.japi.tags/tags_1.json
		}
		tags[t.Name] = &tagAcc{name: t.Name, title: title, desc: t.Description}
		tagOrder = append(tagOrder, t.Name)
	}
	inter := newObj()
	assign := func(id, path, proto string, own, urlTags []string) *vlib.ON {
		names := own
		if names == nil {
			names = urlTags
		}
		if names == nil {
			title := PathTagTitle(path)
			n := PathTagName(title)
			if tags[n] == nil {
				tags[n] = &tagAcc{name: n, title: title}
				tagOrder = append(tagOrder, n)
			}
			names = []string{n}
		}
		var items []*vlib.ON
		for _, n := range names {
			if proto == "http" {
				tags[n].http = append(tags[n].http, id)
			} else {
				tags[n].rpc = append(tags[n].rpc, id)
			}
			items = append(items, oS(n))
		}
		return arr(items...)
	}
	for _, res := range doc.Resources() {
		for _, m := range res.RPC {
			id := "json-rpc-2.0 " + m.Name + " " + res.Path
			o := newObj().str("id", id).str("protocol", "json-rpc-2.0").str("path", res.Path).str("method", m.Name)
			o.set("tags", assign(id, res.Path, "json-rpc-2.0", m.Tags, nil))
			o.optStr("annotation", m.Annotation)
			if m.Description != nil {
				o.str("description", descText(m.Description))
			}
			if m.Params != nil {
				o.set("params", newObj().set("schema", jsightSchemaON(m.Params, true)).n)
			}
			if m.Result != nil {
				o.set("result", newObj().set("schema", jsightSchemaON(m.Result, true)).n)
			}
			inter.set(id, o.n)
		}
		for _, m := range res.Methods {
			id := "http " + m.Verb + " " + m.Path
			o := newObj().str("id", id).str("protocol", "http").str("httpMethod", m.Verb).str("path", m.Path)
			if pp := PathParams(m.Path); len(pp) > 0 {
				var kids []*vlib.ON
				u := &used{}
				for _, p := range pp {
					if s := defs[PathPrefix(m.Path, p)+"|"+p]; s != nil {
						k := p
						kids = append(kids, contentON(s, &k, false, u))
					} else {
						kids = append(kids, anyPathNode(p))
					}
				}
				c := newObj().str("tokenType", "object").str("type", "object").set("children", arr(kids...)).set("optional", oB(false))
				sc := newObj().set("content", c.n).str("notation", "jsight")
				if len(u.list) > 0 {
					var items []*vlib.ON
					for _, n := range u.list {
						items = append(items, oS(n))
					}
					sc.set("usedUserTypes", arr(items...))
				}
				o.set("pathVariables", newObj().set("schema", sc.n).n)
			}
			var urlTags []string
			if res.Grouped {
				urlTags = res.Tags
			}
			o.set("tags", assign(id, m.Path, "http", m.Tags, urlTags))
			o.optStr("annotation", m.Annotation)
			if m.Description != nil {
				o.str("description", descText(m.Description))
			}
			if m.Query != nil {
				q := newObj()
				q.optStr("example", m.Query.Example)
				f := m.Query.Format
				if f == "" {
					f = "htmlFormEncoded"
				}
				q.str("format", f).set("schema", jsightSchemaON(m.Query.Schema, true))
				o.set("query", q.n)
			}
			if m.Request != nil {
				rq := newObj()
				if m.Request.Headers != nil {
					rq.set("headers", newObj().set("schema", jsightSchemaON(m.Request.Headers, true)).n)
				}
				rq.set("body", bodyON(m.Request.Body))
				o.set("request", rq.n)
			}
			if len(m.Responses) > 0 {
				var rr []*vlib.ON
				for _, rs := range m.Responses {
					ro := newObj().str("code", rs.Code)
					ro.optStr("annotation", rs.Annotation)
					if rs.Headers != nil {
						ro.set("headers", newObj().set("schema", jsightSchemaON(rs.Headers, true)).n)
					}
					ro.set("body", bodyON(rs.Body))
					rr = append(rr, ro.n)
				}
				o.set("responses", arr(rr...))
			}
			inter.set(id, o.n)
		}
	}
	to := newObj()
	for _, n := range tagOrder {
		t := tags[n]
		o := newObj().str("name", t.name).str("title", t.title)
		if t.desc != nil {
			o.str("description", descText(t.desc))
		}
		var groups []*vlib.ON
		if len(t.http) > 0 {
			var ids []*vlib.ON
			for _, id := range t.http {
				ids = append(ids, oS(id))
			}
			groups = append(groups, newObj().str("protocol", "http").set("interactions", arr(ids...)).n)
		}
		if len(t.rpc) > 0 {
			var ids []*vlib.ON
			for _, id := range t.rpc {
				ids = append(ids, oS(id))
			}
			groups = append(groups, newObj().str("protocol", "json-rpc-2.0").set("interactions", arr(ids...)).n)
		}
		o.set("interactionGroups", arr(groups...))
		to.set(n, o.n)
	}
	top.set("tags", to.n)
	for _, b := range doc.Blocks {
		if b.Info != nil {
			o := newObj()
			if b.Info.HasTitle {
				o.str("title", b.Info.Title)
			}
			if b.Info.HasVersion {
				o.str("version", b.Info.Version)
			}
			if b.Info.Description != nil {
				o.str("description", descText(b.Info.Description))
			}
			top.set("info", o.n)
		}
	}
	so := newObj()
	for _, b := range doc.Blocks {
		if b.Server != nil {
			o := newObj()
			o.optStr("annotation", b.Server.Annotation)
			o.str("baseUrl", b.Server.BaseURL)
			so.set(b.Server.Name, o.n)
		}
	}
	if len(so.n.Keys) > 0 {
		top.set("servers", so.n)
	}
	tyo := newObj()
	for _, t := range doc.Types() {
		o := newObj()
		o.optStr("annotation", t.Annotation)
		switch t.Notation {
		case "jsight":
			o.set("schema", jsightSchemaON(t.Schema, true))
		case "regex":
			o.set("schema", regexSchemaON(t.Pattern))
		default:
			o.set("schema", pseudoSchemaON(t.Notation))
		}
		tyo.set(t.Name, o.n)
	}
	if len(tyo.n.Keys) > 0 {
		top.set("userTypes", tyo.n)
	}
	eo := newObj()
	for _, e := range doc.Enums() {
		var kids []*vlib.ON
		for _, v := range e.Values {
			c := newObj().str("tokenType", v.Tok)
			c.optStr("note", v.Note)
			c.str("scalarValue", v.SVal)
			kids = append(kids, c.n)
		}
		val := newObj().str("tokenType", "array")
		if len(kids) > 0 {
			val.set("children", arr(kids...))
		}
		eo.set(e.Name, newObj().str("annotation", e.Annotation).str("description", "").set("value", val.n).n)
	}
	if len(eo.n.Keys) > 0 {
		top.set("userEnums", eo.n)
	}
	top.set("interactions", inter.n)
	top.str("jsight", "0.3").str("jdocExchangeVersion", "2.0.0")
	return top.n
}

// CompareCatalog compares the expected catalog with the parsed ToJson output.  Key order is significant in the ordered
// sections (tags, servers, userTypes, userEnums, interactions) and ignored inside entities; arrays are ordered.
// It returns "" or a description of the first difference.
func CompareCatalog(exp, got *vlib.ON) string {
	return cmp(exp, got, "", 0)
}

func cmp(e, g *vlib.ON, path string, depth int) string {
	if e == nil || g == nil {
		if e == nil && g == nil {
			return ""
		}
		if e == nil {
			return path + ": the catalog has " + clipS(g.Canon(false)) + " which the model does not have"
		}
		return path + ": missing in the catalog; the model has " + clipS(e.Canon(false))
	}
	if e.Kind != g.Kind {
		return path + ": model " + clipS(e.Canon(false)) + ", catalog " + clipS(g.Canon(false))
	}
	switch e.Kind {
	case 'o':
		ordered := depth == 1 && (path == "/tags" || path == "/servers" || path == "/userTypes" || path == "/userEnums" || path == "/interactions")
		for _, k := range g.Keys {
			if k == "usedUserEnums" {
				continue // never emitted by the implementation and not part of the model comparison
			}
			if e.Get(k) == nil {
				return path + "/" + k + ": in the catalog " + clipS(g.Get(k).Canon(false)) + ", not in the model"
			}
		}
		for i, k := range e.Keys {
			if g.Get(k) == nil {
				if e.Vals[i].Kind == 's' && e.Vals[i].Str == AnyString {
					continue // a value produced by the schema library may be empty and omitted
				}
				return path + "/" + k + ": missing in the catalog; the model has " + clipS(e.Get(k).Canon(false))
			}
		}
		if ordered {
			for i := range e.Keys {
				if i < len(g.Keys) && e.Keys[i] != g.Keys[i] {
					return path + ": entry order differs: model " + strings.Join(e.Keys, ", ") + "; catalog " + strings.Join(g.Keys, ", ")
				}
			}
		}
		for i, k := range e.Keys {
			if g.Get(k) == nil {
				continue
			}
			if d := cmp(e.Vals[i], g.Get(k), path+"/"+k, depth+1); d != "" {
				return d
			}
		}
	case 'a':
		for i := 0; i < len(e.Vals) && i < len(g.Vals); i++ {
			if d := cmp(e.Vals[i], g.Vals[i], path+"["+itoa(i)+"]", depth+1); d != "" {
				return d
			}
		}
		if len(e.Vals) != len(g.Vals) {
			return path + ": the model has " + itoa(len(e.Vals)) + " elements, the catalog " + itoa(len(g.Vals))
		}
	case 's':
		if e.Str == AnyString {
			return ""
		}
		if e.Str != g.Str {
			return path + ": model " + lit(e.Str) + ", catalog " + lit(g.Str)
		}
	case 'n':
		if e.Str != g.Str {
			return path + ": model " + e.Str + ", catalog " + g.Str
		}
	case 'b':
		if e.Bool != g.Bool {
			return path + ": boolean differs"
		}
	}
	return ""
}

func itoa(i int) string { return strconv.Itoa(i) }

func clipS(s string) string {
	if len(s) > 300 {
		return s[:300] + "…"
	}
	return s
}
