package mdl

import (
	"fmt"
	"strings"
)

// Param is a directive parameter; Text is its value (what the catalog sees).
type Param struct {
	Text      string
	MustQuote bool // cannot be written bare
	NoQuote   bool // must be written bare (user type names, notations, codes)
}

// Dir is a node of the directive tree that is rendered to text.
type Dir struct {
	ID       int // stable identity across transformations (assigned by Number)
	Kw       string
	Params   []Param
	Annot    string
	BodyKind string   // "" | schema | text | enum | regex
	Body     []string // body lines, relative indentation only
	Children []*Dir
	// transformation nodes (C09 / C10)
	IncludeFile string // Kw == INCLUDE: project relative file holding IncludeDirs
	IncludeDirs []*Dir
	// Tag is a free-form label (model path) used by fault injection and by the line oracle.
	Tag string
	// Explicit forces / forbids the "( )" form when set by a transformation ("" = layout decides).
	Explicit string // "" | yes | no
}

func (d *Dir) Add(c ...*Dir) *Dir {
	d.Children = append(d.Children, c...)
	return d
}

func bare(s string) Param   { return Param{Text: s} } // may be quoted by the layout: quoting a bare parameter is insignificant
func quoted(s string) Param { return Param{Text: s, MustQuote: true} }

// textParam chooses the quoting constraints of a free-text parameter.
func textParam(s string) Param {
	if s == "" || strings.ContainsAny(s, " \t#\"") || strings.Contains(s, "//") || strings.Contains(s, "/*") || strings.HasPrefix(s, "(") {
		return Param{Text: s, MustQuote: true}
	}
	return Param{Text: s}
}

// ---- schema rendering -------------------------------------------------------------------------------------------

func ruleComment(s *Schema) string {
	var parts []string
	for _, r := range s.Rules {
		parts = append(parts, r.Key+": "+r.Val)
	}
	c := ""
	if len(parts) > 0 {
		c = "{" + strings.Join(parts, ", ") + "}"
	}
	if s.Note != "" {
		if c != "" {
			c += " - " + s.Note
		} else {
			c = s.Note
		}
	}
	if c == "" {
		return ""
	}
	return " // " + c
}

func scalarText(s *Schema) string {
	switch s.Kind {
	case "ref":
		return s.Ref
	case "or":
		return strings.Join(s.Or, " | ")
	default:
		return s.Lit
	}
}

// SchemaLines renders a schema as JSight schema text, one example element per annotated line.
func SchemaLines(s *Schema) []string {
	var out []string
	var rec func(s *Schema, prefix, ind string, comma bool)
	rec = func(s *Schema, prefix, ind string, comma bool) {
		cm := ""
		if comma {
			cm = ","
		}
		switch s.Kind {
		case "obj":
			if len(s.Props) == 0 {
				out = append(out, ind+prefix+"{}"+cm+ruleComment(s))
				return
			}
			out = append(out, ind+prefix+"{"+ruleComment(s))
			for i, p := range s.Props {
				rec(p.Val, lit(p.Key)+": ", ind+"  ", i < len(s.Props)-1)
			}
			out = append(out, ind+"}"+cm)
		case "arr":
			if len(s.Items) == 0 {
				out = append(out, ind+prefix+"[]"+cm+ruleComment(s))
				return
			}
			out = append(out, ind+prefix+"["+ruleComment(s))
			for i, it := range s.Items {
				rec(it, "", ind+"  ", i < len(s.Items)-1)
			}
			out = append(out, ind+"]"+cm)
		default:
			out = append(out, ind+prefix+scalarText(s)+cm+ruleComment(s))
		}
	}
	rec(s, "", "", false)
	return out
}

func descDir(lines []string) *Dir {
	return &Dir{Kw: "Description", BodyKind: "text", Body: lines}
}

// bodyDirs renders a request/response body either on the owner line or as a Body child.
// It returns the parameters and inline body to put on the owner, and the Body child (nil if none).
func bodyParts(b *Body, asChild bool) (params []Param, kind string, lines []string, child *Dir) {
	switch b.Kind {
	case "any", "empty":
		params = []Param{bare(b.Kind)}
	case "type":
		params = []Param{bare(b.Type)}
	case "array":
		params = []Param{bare("[" + b.Type + "]")}
	case "regex":
		params = []Param{bare("regex")}
		kind, lines = "regex", []string{"/" + b.Pattern + "/"}
	case "schema":
		kind, lines = "schema", SchemaLines(b.Schema)
	}
	if asChild {
		child = &Dir{Kw: "Body", Params: params, BodyKind: kind, Body: lines}
		return nil, "", nil, child
	}
	return
}

// TreeOpts are the layout decisions that change the shape of the directive tree.
type TreeOpts struct {
	R     Rnd
	Plain bool // canonical forms only
}

func (o TreeOpts) chance(a, b int) bool { return !o.Plain && o.R != nil && chance(o.R, a, b) }

func tagsDir(tags []string) *Dir {
	d := &Dir{Kw: "Tags"}
	for _, t := range tags {
		d.Params = append(d.Params, bare(t))
	}
	return d
}

func pathDir(s *Schema) *Dir {
	return &Dir{Kw: "Path", BodyKind: "schema", Body: SchemaLines(s)}
}

func headersDir(s *Schema) *Dir {
	return &Dir{Kw: "Headers", BodyKind: "schema", Body: SchemaLines(s)}
}

func methodDir(m *HTTPMethod, withPath bool, o TreeOpts, tag string) *Dir {
	d := &Dir{Kw: m.Verb, Annot: m.Annotation, Tag: tag}
	if withPath {
		d.Params = []Param{textParam(m.Path)}
	}
	for _, c := range m.ChildOrder {
		switch c {
		case "Description":
			d.Add(descDir(m.Description))
		case "Tags":
			d.Add(tagsDir(m.Tags))
		case "OperationId":
			d.Add(&Dir{Kw: "OperationId", Params: []Param{textParam(m.OperationID)}})
		case "Path":
			d.Add(pathDir(m.PathSchema))
		case "Query":
			q := &Dir{Kw: "Query", BodyKind: "schema", Body: SchemaLines(m.Query.Schema)}
			if m.Query.Example != "" {
				q.Params = append(q.Params, textParam(m.Query.Example))
			}
			if m.Query.Format != "" {
				q.Params = append(q.Params, bare(m.Query.Format))
			}
			d.Add(q)
		case "Request":
			rq := &Dir{Kw: "Request"}
			asChild := m.Request.Headers != nil || o.chance(1, 3)
			params, kind, lines, child := bodyParts(m.Request.Body, asChild)
			rq.Params, rq.BodyKind, rq.Body = params, kind, lines
			if m.Request.Headers != nil {
				rq.Add(headersDir(m.Request.Headers))
			}
			if child != nil {
				if o.chance(1, 2) && m.Request.Headers != nil {
					rq.Children = append([]*Dir{child}, rq.Children...)
				} else {
					rq.Add(child)
				}
			}
			d.Add(rq)
		default: // #<i>
			var i int
			fmt.Sscanf(c, "#%d", &i)
			rs := m.Responses[i]
			rd := &Dir{Kw: rs.Code, Annot: rs.Annotation, Tag: fmt.Sprintf("%s/R%d", tag, i)}
			asChild := rs.Headers != nil || o.chance(1, 3)
			params, kind, lines, child := bodyParts(rs.Body, asChild)
			rd.Params, rd.BodyKind, rd.Body = params, kind, lines
			if rs.Headers != nil {
				rd.Add(headersDir(rs.Headers))
			}
			if child != nil {
				if o.chance(1, 2) && rs.Headers != nil {
					rd.Children = append([]*Dir{child}, rd.Children...)
				} else {
					rd.Add(child)
				}
			}
			d.Add(rd)
		}
	}
	return d
}

// BuildTree turns the model into the directive tree (JSIGHT first).
func BuildTree(doc *Doc, o TreeOpts) []*Dir {
	root := []*Dir{{Kw: "JSIGHT", Params: []Param{{Text: "0.3"}}, Tag: "jsight"}}
	for bi, b := range doc.Blocks {
		tag := fmt.Sprintf("B%d", bi)
		switch {
		case b.Info != nil:
			d := &Dir{Kw: "INFO", Tag: tag}
			var kids []*Dir
			if b.Info.HasTitle {
				kids = append(kids, &Dir{Kw: "Title", Params: []Param{textParam(b.Info.Title)}})
			}
			if b.Info.HasVersion {
				kids = append(kids, &Dir{Kw: "Version", Params: []Param{textParam(b.Info.Version)}})
			}
			if b.Info.Description != nil {
				kids = append(kids, descDir(b.Info.Description))
			}
			if o.chance(1, 3) && len(kids) > 1 {
				kids[0], kids[len(kids)-1] = kids[len(kids)-1], kids[0]
			}
			d.Children = kids
			root = append(root, d)
		case b.Server != nil:
			d := &Dir{Kw: "SERVER", Params: []Param{bare(b.Server.Name)}, Annot: b.Server.Annotation, Tag: tag}
			d.Add(&Dir{Kw: "BaseUrl", Params: []Param{textParam(b.Server.BaseURL)}})
			root = append(root, d)
		case b.Tag != nil:
			d := &Dir{Kw: "TAG", Params: []Param{bare(b.Tag.Name)}, Annot: b.Tag.Annotation, Tag: tag}
			if b.Tag.Description != nil {
				d.Add(descDir(b.Tag.Description))
			}
			root = append(root, d)
		case b.Enum != nil:
			d := &Dir{Kw: "ENUM", Params: []Param{bare(b.Enum.Name)}, Annot: b.Enum.Annotation, BodyKind: "enum", Tag: tag}
			d.Body = append(d.Body, "[")
			for i, v := range b.Enum.Values {
				l := "  " + v.Lit
				if i < len(b.Enum.Values)-1 {
					l += ","
				}
				if v.Note != "" {
					l += " // " + v.Note
				}
				d.Body = append(d.Body, l)
			}
			d.Body = append(d.Body, "]")
			root = append(root, d)
		case b.Type != nil:
			t := b.Type
			d := &Dir{Kw: "TYPE", Params: []Param{bare(t.Name)}, Annot: t.Annotation, Tag: tag}
			switch t.Notation {
			case "jsight":
				if o.chance(1, 4) {
					d.Params = append(d.Params, bare("jsight"))
				}
				d.BodyKind, d.Body = "schema", SchemaLines(t.Schema)
			case "regex":
				d.Params = append(d.Params, bare("regex"))
				d.BodyKind, d.Body = "regex", []string{"/" + t.Pattern + "/"}
			default:
				d.Params = append(d.Params, bare(t.Notation))
			}
			root = append(root, d)
		case b.Resource != nil:
			res := b.Resource
			switch {
			case len(res.RPC) > 0:
				u := &Dir{Kw: "URL", Params: []Param{textParam(res.Path)}, Tag: tag}
				u.Add(&Dir{Kw: "Protocol", Params: []Param{bare("json-rpc-2.0")}})
				for mi, m := range res.RPC {
					md := &Dir{Kw: "Method", Params: []Param{textParam(m.Name)}, Annot: m.Annotation, Tag: fmt.Sprintf("%s/M%d", tag, mi)}
					if m.Description != nil {
						md.Add(descDir(m.Description))
					}
					if m.Tags != nil {
						md.Add(tagsDir(m.Tags))
					}
					if m.Params != nil {
						md.Add(&Dir{Kw: "Params", BodyKind: "schema", Body: SchemaLines(m.Params)})
					}
					if m.Result != nil {
						md.Add(&Dir{Kw: "Result", BodyKind: "schema", Body: SchemaLines(m.Result)})
					}
					if o.chance(1, 3) && len(md.Children) > 1 {
						md.Children[0], md.Children[len(md.Children)-1] = md.Children[len(md.Children)-1], md.Children[0]
					}
					u.Add(md)
				}
				root = append(root, u)
			case res.Grouped:
				u := &Dir{Kw: "URL", Params: []Param{textParam(res.Path)}, Tag: tag}
				var pre []*Dir
				if res.Tags != nil {
					pre = append(pre, tagsDir(res.Tags))
				}
				if res.PathSchema != nil {
					pre = append(pre, pathDir(res.PathSchema))
				}
				if len(pre) == 2 && o.chance(1, 2) {
					pre[0], pre[1] = pre[1], pre[0]
				}
				var mds []*Dir
				for mi, m := range res.Methods {
					mds = append(mds, methodDir(m, false, o, fmt.Sprintf("%s/M%d", tag, mi)))
				}
				if last := len(mds) - 1; !o.Plain && len(pre) > 0 && last >= 0 && len(mds[last].Children) > 0 && o.chance(1, 4) {
					// the URL's own Tags / Path written after its methods: legal when the method before them closes its
					// context explicitly, otherwise they would belong to that method
					mds[last].Explicit = "yes"
					u.Add(mds...)
					u.Add(pre...)
				} else {
					u.Add(pre...)
					u.Add(mds...)
				}
				root = append(root, u)
			default:
				for mi, m := range res.Methods {
					root = append(root, methodDir(m, true, o, fmt.Sprintf("%s/M%d", tag, mi)))
				}
			}
		}
	}
	Number(root)
	return root
}

// Number assigns stable IDs (pre-order) to the directives of a freshly built tree.
func Number(dirs []*Dir) {
	n := 0
	Walk(dirs, func(d *Dir, _ *Dir) {
		n++
		d.ID = n
	})
}

// clone copies a directive (children slice copied, children themselves shared until cloned by the caller).
func (d *Dir) clone() *Dir {
	c := *d
	c.Children = append([]*Dir(nil), d.Children...)
	return &c
}

// CloneTree deep-copies a tree (IDs are kept).
func CloneTree(dirs []*Dir) []*Dir {
	out := make([]*Dir, len(dirs))
	for i, d := range dirs {
		c := *d
		c.Children = CloneTree(d.Children)
		c.IncludeDirs = CloneTree(d.IncludeDirs)
		out[i] = &c
	}
	return out
}
