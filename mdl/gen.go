package mdl

import (
	"fmt"
	"strconv"
	"strings"
)

// Constructive generator of valid models (no filtering): names come from small alphabets, references only to declared
// types along an acyclic order, one parameter name per path prefix, one definition per (prefix, parameter).

var words = []string{"alpha", "beta", "gamma", "delta", "omega", "lorem", "ipsum", "dolor", "amet", "cat", "dog", "fish", "x", "id of", "the", "list", "new", "old"}

func genWords(r Rnd, n int) string {
	var ss []string
	for i := 0; i < n; i++ {
		ss = append(ss, pick(r, words))
	}
	return strings.Join(ss, " ")
}

func genAnnotation(r Rnd, p, q int) string {
	if !chance(r, p, q) {
		return ""
	}
	if chance(r, 1, 12) {
		return genWords(r, 30) + " " + genWords(r, 30) // long line (> 200 bytes with the head)
	}
	if chance(r, 1, 3) {
		// punctuation that is significant elsewhere in the language: slashes, asterisks, quotes, parentheses, '#'
		// (block form only, see the renderer), keywords; never the sequence "*/"
		n := 1 + r.Intn(4)
		var ss []string
		for i := 0; i < n; i++ {
			if chance(r, 1, 2) {
				ss = append(ss, pick(r, annotPunct))
			} else {
				ss = append(ss, pick(r, words))
			}
		}
		return strings.Join(ss, " ")
	}
	return genWords(r, 1+r.Intn(4))
}

var annotPunct = []string{"/pets/", "/", "a/b", "same as /cats/", "*", "x*", "**", "/*", "//", "(see)", ")", "(", "\"q\"", "it's", "50%", "GET", "200", "Body", "@t1", "{id}", "café", "#1", "a#b", "# c", "\\", "x,y", "{}", "[1]"}

var keywordLookalikes = []string{"URLs", "Titles", "2000", "404s", "GETs", "POSTed", "PUTs", "Pathological", "INFOrmation", "Bodybuilders",
	"Tagsoup", "TAGs", "Methods:", "Requests", "Results", "Versions", "Queryable", "PASTEd", "INCLUDEs", "TYPEs", "ENUMs", "MACROs",
	"Protocols", "SERVERs", "JSIGHTs", "Paramset", "Descriptions", "HEADers", "Headers:", "DELETEd", "PATCHes", "BaseUrls", "OperationIds", "TYPE@a", "200,", "GET-request"}

func genDescription(r Rnd) []string {
	n := 1 + r.Intn(4)
	if chance(r, 1, 6) {
		n = 6 + r.Intn(5) // a long text
	}
	var ll []string
	for i := 0; i < n; i++ {
		switch {
		case i > 0 && i < n-1 && chance(r, 1, 6):
			ll = append(ll, "")
		case i > 0 && chance(r, 1, 4):
			ll = append(ll, "  "+genWords(r, 1+r.Intn(3)))
		case chance(r, 1, 8):
			// a line that begins with a word of which a keyword is a proper prefix: text, not a directive
			ll = append(ll, pick(r, keywordLookalikes)+" "+genWords(r, 1+r.Intn(2)))
		default:
			ll = append(ll, genWords(r, 1+r.Intn(5)))
		}
	}
	if ll[len(ll)-1] == "" {
		ll[len(ll)-1] = genWords(r, 2)
	}
	return ll
}

// G holds the state of one model generation.
type G struct {
	R        Rnd
	Doc      *Doc
	types    []*Type // all types, in reference order: type i may refer only to types[j], j > i
	refable  []*Type // jsight / regex types (referable)
	enums    []*Enum
	tags     []*Tag
	pathDefs map[string]bool // prefix|param already described by some Path
	paths    []string        // the paths generated so far
	pathBias bool            // path variables are mostly described through user types
	trie     map[string]string
	ids      map[string]bool // interaction ids
	opIDs    int
	Size     int // 0 small, 1 medium, 2 large
}

func lit(s string) string { return strconv.Quote(s) }

func (g *G) scalar(kind string, inObject bool) *Schema {
	r := g.R
	s := &Schema{Kind: kind}
	switch kind {
	case "int":
		v := r.Intn(1000)
		if chance(r, 1, 8) {
			v = -v
		}
		s.Lit = strconv.Itoa(v)
		if chance(r, 1, 4) {
			s.Rules = append(s.Rules, Rule{"min", strconv.Itoa(v - r.Intn(5)), "number", ""})
		}
		if chance(r, 1, 6) {
			s.Rules = append(s.Rules, Rule{"max", strconv.Itoa(v + r.Intn(5)), "number", ""})
		}
	case "float":
		s.Lit = pick(r, []string{"1.5", "0.25", "12.50", "3.0", "100.125", "-2.5"})
		if chance(r, 1, 6) {
			// a decimal with its precision (the catalog types the node "decimal")
			s.Lit = pick(r, []string{"1.1", "12.50", "0.25"})
			s.Rules = append(s.Rules, Rule{"type", `"decimal"`, "string", "decimal"}, Rule{"precision", "2", "number", "2"})
		}
	case "str":
		if chance(r, 1, 7) {
			// a string of one of the schema language's built-in formats
			f := pick(r, [][2]string{{"email", "tom@pets.com"}, {"uri", "http://pets.com/p/1"}, {"date", "2021-01-15"},
				{"datetime", "2021-01-16T12:00:00+03:00"}, {"uuid", "550e8400-e29b-41d4-a716-446655440000"}})
			s.Str, s.Lit = f[1], lit(f[1])
			s.Rules = append(s.Rules, Rule{"type", lit(f[0]), "string", f[0]})
			break
		}
		s.Str = pick(r, []string{"abc", "Tom", "hello world", "", "x", "CAT-1", "a b  c", "ümlaut", "q'uote"})
		s.Lit = lit(s.Str)
		if s.Str == "ümlaut" {
			s.Lit = `"ümlaut"`
		}
		n := len([]rune(s.Str))
		if n != len(s.Str) {
			break // no length rules for non-ASCII strings (byte vs rune counting is the schema library's business)
		}
		if chance(r, 1, 5) {
			s.Rules = append(s.Rules, Rule{"minLength", strconv.Itoa(max(0, n-r.Intn(3))), "number", ""})
		}
		if chance(r, 1, 8) {
			s.Rules = append(s.Rules, Rule{"maxLength", strconv.Itoa(n + r.Intn(3)), "number", ""})
		}
	case "bool":
		s.Lit = pick(r, []string{"true", "false"})
		if chance(r, 1, 6) {
			s.Rules = append(s.Rules, Rule{"const", pick(r, []string{"true", "false"}), "boolean", ""})
		}
	case "null":
		s.Lit = "null"
	}
	for i := range s.Rules {
		if s.Rules[i].SVal == "" {
			s.Rules[i].SVal = s.Rules[i].Val
		}
	}
	return s
}

func (g *G) addCommon(s *Schema, inObject bool) {
	r := g.R
	if inObject && chance(r, 1, 5) {
		s.Rules = append(s.Rules, Rule{"optional", "true", "boolean", "true"})
	}
	hasEnum := false
	for _, ru := range s.Rules {
		if ru.Key == "enum" {
			hasEnum = true
		}
	}
	if !hasEnum && (s.Kind == "int" || s.Kind == "str" || s.Kind == "float" || s.Kind == "bool") && chance(r, 1, 10) {
		s.Rules = append(s.Rules, Rule{"nullable", "true", "boolean", "true"})
	}
	if s.Kind != "obj" && s.Kind != "arr" && chance(r, 1, 4) {
		s.Note = genWords(r, 1+r.Intn(3))
	}
}

// genSchema builds a schema that may refer to the types in refs.
func (g *G) genSchema(depth int, refs []*Type, inObject bool) *Schema {
	r := g.R
	var s *Schema
	k := r.Intn(12)
	switch {
	case depth > 0 && k < 3:
		s = &Schema{Kind: "obj"}
		n := r.Intn(4)
		if g.Size > 0 {
			n = r.Intn(6)
		}
		used := map[string]bool{}
		for i := 0; i < n; i++ {
			key := pick(r, []string{"id", "name", "a", "b", "items", "data", "x-y", "k1", "k2", "Content-Type", "long_key_name"})
			if used[key] {
				continue
			}
			used[key] = true
			s.Props = append(s.Props, Prop{key, g.genSchema(depth-1, refs, true)})
		}
	case depth > 0 && k < 5:
		s = &Schema{Kind: "arr"}
		n := r.Intn(3)
		for i := 0; i < n; i++ {
			s.Items = append(s.Items, g.genSchema(depth-1, refs, false))
		}
	case k < 7 && len(refs) > 0:
		if len(refs) >= 2 && chance(r, 1, 4) {
			a, b := pick(r, refs), pick(r, refs)
			if a != b {
				s = &Schema{Kind: "or", Or: []string{a.Name, b.Name}}
				break
			}
		}
		s = &Schema{Kind: "ref", Ref: pick(r, refs).Name}
	case k == 7 && len(g.enums) > 0:
		// a value constrained by an enum
		e := pick(r, g.enums)
		v := pick(r, e.Values)
		kind := map[string]string{"string": "str", "number": "int", "boolean": "bool", "null": "null"}[v.Tok]
		if v.Tok == "number" && strings.Contains(v.Lit, ".") {
			kind = "float"
		}
		s = &Schema{Kind: kind, Lit: v.Lit, Str: v.SVal, Rules: []Rule{{"enum", e.Name, "reference", e.Name}}}
	default:
		s = g.scalar(pick(r, []string{"int", "int", "str", "str", "float", "bool", "null"}), inObject)
	}
	if s.Kind != "ref" && s.Kind != "or" || inObject {
		g.addCommon(s, inObject)
	}
	return s
}

func (g *G) genObjectSchema(depth int, refs []*Type) *Schema {
	r := g.R
	s := &Schema{Kind: "obj"}
	n := 1 + r.Intn(3)
	used := map[string]bool{}
	for i := 0; i < n; i++ {
		key := pick(r, []string{"X-Header", "h", "a", "b", "page", "limit", "q"})
		if used[key] {
			continue
		}
		used[key] = true
		s.Props = append(s.Props, Prop{key, g.genSchema(depth-1, refs, true)})
	}
	return s
}

var regexPatterns = []string{"ab+", "[a-z]{2,5}", "x\\d+y", "(foo|bar)", "A-[0-9]{3}", "abc"}

func (g *G) genBody(refs []*Type) *Body {
	r := g.R
	switch r.Intn(8) {
	case 0:
		return &Body{Kind: "any"}
	case 1:
		return &Body{Kind: "empty"}
	case 2:
		return &Body{Kind: "regex", Pattern: pick(r, regexPatterns)}
	case 3, 4:
		if len(refs) > 0 {
			k := "type"
			if chance(r, 1, 3) {
				k = "array"
			}
			return &Body{Kind: k, Type: pick(r, refs).Name}
		}
	}
	return &Body{Kind: "schema", Schema: g.genSchema(2, refs, false)}
}

func (g *G) genPath() string {
	p := g.genPath1()
	g.paths = append(g.paths, p)
	return p
}

func (g *G) genPath1() string {
	r := g.R
	if len(g.paths) > 0 && chance(r, 1, 4) {
		// a shorter sibling of an earlier path: the prefix that ends with one of its parameters (the two resources then
		// share path variables, and one Path directive may describe them for both)
		segs := strings.Split(strings.TrimPrefix(pick(r, g.paths), "/"), "/")
		var cuts []int
		for i, sg := range segs[:len(segs)-1] {
			if strings.HasPrefix(sg, "{") {
				cuts = append(cuts, i+1)
			}
		}
		if len(cuts) > 0 {
			return "/" + strings.Join(segs[:pick(r, cuts)], "/")
		}
	}
	// random walk in the prefix trie: at each prefix at most one parameter name
	n := 1 + r.Intn(3)
	if chance(r, 1, 6) {
		n = 4 + r.Intn(2)
	}
	prefix := ""
	var segs []string
	for i := 0; i < n; i++ {
		if chance(r, 1, 3) && i > 0 || chance(r, 1, 12) {
			p, ok := g.trie[prefix]
			if !ok {
				p = pick(r, []string{"id", "k", "p", "ID", "long_name", "x1"})
				// a parameter name may occur only once in a path
				for _, s := range segs {
					if s == "{"+p+"}" {
						p = p + strconv.Itoa(i)
					}
				}
				g.trie[prefix] = p
			}
			dup := false
			for _, s := range segs {
				if s == "{"+p+"}" {
					dup = true
				}
			}
			if !dup {
				segs = append(segs, "{"+p+"}")
				prefix += "/{" + p + "}"
				continue
			}
		}
		s := pick(r, []string{"a", "b", "cats", "c_d", "x1", "v2", "dogs", "a.b", "rpc"})
		segs = append(segs, s)
		prefix += "/" + s
	}
	return "/" + strings.Join(segs, "/")
}

func (g *G) genPathSchema(path string) *Schema {
	r := g.R
	var props []Prop
	for _, p := range PathParams(path) {
		key := PathPrefix(path, p) + "|" + p
		if g.pathDefs[key] || !chance(r, 1, 2) {
			continue
		}
		g.pathDefs[key] = true
		s := g.scalar(pick(r, []string{"int", "str", "int", "float"}), true)
		if len(g.enums) > 0 && chance(r, 1, 4) {
			// a path variable constrained by a declared ENUM (string or number value)
			e := pick(r, g.enums)
			var vv []EnumValue
			for _, v := range e.Values {
				if v.Tok == "string" || v.Tok == "number" {
					vv = append(vv, v)
				}
			}
			if len(vv) > 0 {
				v := pick(r, vv)
				kind := "str"
				if v.Tok == "number" {
					kind = "int"
					if v.Tok == "number" && strings.Contains(v.Lit, ".") {
						kind = "float"
					}
				}
				s = &Schema{Kind: kind, Lit: v.Lit, Str: v.SVal, Rules: []Rule{{"enum", e.Name, "reference", e.Name}}}
			}
		}
		if chance(r, 1, 3) || g.pathBias && chance(r, 1, 2) {
			// a path variable typed by a user type whose value is a scalar
			var cands []*Type
			for _, t := range g.types {
				if t.Notation == "jsight" && t.Schema != nil {
					switch t.Schema.Kind {
					case "int", "str", "float":
						cands = append(cands, t)
					}
				}
			}
			if len(cands) > 0 {
				s = &Schema{Kind: "ref", Ref: pick(r, cands).Name}
				// ... or by one of two such types; regex types qualify as well
				var rx []*Type
				for _, t := range g.types {
					if t.Notation == "regex" {
						rx = append(rx, t)
					}
				}
				a, b := pick(r, cands), pick(r, append(cands, rx...))
				if len(rx) > 0 && chance(r, 1, 2) {
					b = pick(r, rx)
				}
				if a != b && chance(r, 2, 3) {
					if chance(r, 1, 2) {
						a, b = b, a
					}
					s = &Schema{Kind: "or", Or: []string{a.Name, b.Name}}
				}
			}
		}
		if chance(r, 1, 3) {
			s.Note = genWords(r, 2)
		}
		props = append(props, Prop{p, s})
	}
	if len(props) == 0 {
		return nil
	}
	return &Schema{Kind: "obj", Props: props}
}

func (g *G) tagRefs() []string {
	r := g.R
	if len(g.tags) == 0 || !chance(r, 1, 3) {
		return nil
	}
	n := 1 + r.Intn(2)
	var out []string
	seen := map[string]bool{}
	for i := 0; i < n; i++ {
		t := pick(r, g.tags).Name
		if !seen[t] {
			seen[t] = true
			out = append(out, t)
		}
	}
	return out
}

func (g *G) genHTTPMethod(verb, path string, allowPath bool) *HTTPMethod {
	r := g.R
	m := &HTTPMethod{Verb: verb, Path: path}
	m.Annotation = genAnnotation(r, 1, 2)
	if chance(r, 1, 3) {
		m.Description = genDescription(r)
	}
	m.Tags = g.tagRefs()
	if chance(r, 1, 4) {
		g.opIDs++
		m.OperationID = fmt.Sprintf("op%d", g.opIDs)
	}
	if allowPath {
		m.PathSchema = g.genPathSchema(path)
	}
	if chance(r, 1, 3) {
		q := &Query{Schema: g.genObjectSchema(2, g.refable)}
		if chance(r, 1, 2) {
			q.Example = pick(r, []string{"a=1", "a=1&b=2", "page=2&limit=10", "q=x y", `q="x"`, `p=a\b`})
		}
		if chance(r, 1, 3) {
			q.Format = pick(r, []string{"htmlFormEncoded", "noFormat"})
		}
		m.Query = q
	}
	if chance(r, 1, 3) {
		rq := &Request{Body: g.genBody(g.refable)}
		if chance(r, 1, 3) {
			rq.Headers = g.genObjectSchema(2, g.refable)
		}
		m.Request = rq
	}
	nr := r.Intn(4)
	if g.Size > 0 {
		nr = r.Intn(5)
	}
	for i := 0; i < nr; i++ {
		rs := &Response{Code: pick(r, []string{"200", "200", "201", "204", "400", "404", "500", "100", "599", "302"})}
		rs.Annotation = genAnnotation(r, 1, 3)
		rs.Body = g.genBody(g.refable)
		if chance(r, 1, 4) {
			rs.Headers = g.genObjectSchema(2, g.refable)
		}
		m.Responses = append(m.Responses, rs)
	}
	// order of the optional children
	var order []string
	for _, c := range []struct {
		k  string
		on bool
	}{{"Description", m.Description != nil}, {"Tags", m.Tags != nil}, {"OperationId", m.OperationID != ""}, {"Path", m.PathSchema != nil},
		{"Query", m.Query != nil}, {"Request", m.Request != nil}} {
		if c.on {
			order = append(order, c.k)
		}
	}
	for i := range m.Responses {
		order = append(order, fmt.Sprintf("#%d", i))
	}
	// shuffle, then restore the relative order of the responses
	for i := len(order) - 1; i > 0; i-- {
		j := r.Intn(i + 1)
		if chance(r, 1, 2) {
			order[i], order[j] = order[j], order[i]
		}
	}
	ri := 0
	for i, o := range order {
		if strings.HasPrefix(o, "#") {
			order[i] = fmt.Sprintf("#%d", ri)
			ri++
		}
	}
	m.ChildOrder = order
	return m
}

func (g *G) genResource() *Resource {
	r := g.R
	for try := 0; try < 5; try++ {
		path := g.genPath()
		if chance(r, 1, 6) {
			// json-rpc resource
			if g.ids["url "+path] {
				continue
			}
			res := &Resource{Path: path, Grouped: true}
			n := 1 + r.Intn(2)
			for i := 0; i < n; i++ {
				name := pick(r, []string{"foo", "bar", "get.cat", "sum"})
				id := "json-rpc-2.0 " + name + " " + path
				if g.ids[id] {
					continue
				}
				g.ids[id] = true
				m := &RPCMethod{Name: name, Annotation: genAnnotation(r, 1, 2), Tags: g.tagRefs()}
				if chance(r, 1, 3) {
					m.Description = genDescription(r)
				}
				if chance(r, 2, 3) {
					m.Params = g.genSchema(2, g.refable, false)
				}
				if chance(r, 2, 3) {
					m.Result = g.genSchema(2, g.refable, false)
				}
				res.RPC = append(res.RPC, m)
			}
			if len(res.RPC) == 0 {
				continue
			}
			g.ids["url "+path] = true
			return res
		}
		if res := g.httpResourceAt(path); res != nil {
			return res
		}
	}
	return nil
}

// httpResourceAt: a URL group or stand-alone methods on the given path (nil if every method drawn exists already).
func (g *G) httpResourceAt(path string) *Resource {
	r := g.R
	res := &Resource{Path: path, Grouped: chance(r, 1, 2)}
	if res.Grouped {
		if g.ids["url "+path] {
			res.Grouped = false
		} else {
			g.ids["url "+path] = true
			res.Tags = g.tagRefs()
			if chance(r, 1, 2) {
				res.PathSchema = g.genPathSchema(path)
			}
		}
	}
	n := 1 + r.Intn(3)
	verbs := []string{"GET", "POST", "PUT", "PATCH", "DELETE"}
	for i := 0; i < n; i++ {
		v := pick(r, verbs)
		id := "http " + v + " " + path
		if g.ids[id] {
			continue
		}
		g.ids[id] = true
		res.Methods = append(res.Methods, g.genHTTPMethod(v, path, true))
	}
	if len(res.Methods) == 0 {
		return nil
	}
	return res
}

// GenPathSharing generates a small valid model made for one purpose: two or three resources on nested paths
// (/s/{a}, /s/{a}/t/{b}, /s/{a}/t/{b}/u/{c}, in any order) that share path variables, which the Path directive of any of
// them may describe - as a scalar, by a scalar or regex user type, by one of two such types, by an ENUM.
func GenPathSharing(r Rnd) *Doc {
	g := &G{R: r, Doc: &Doc{}, pathDefs: map[string]bool{}, trie: map[string]string{}, ids: map[string]bool{}, pathBias: true}
	var blocks []*Block
	if chance(r, 1, 2) {
		e := g.genEnum(0)
		g.enums = append(g.enums, e)
		blocks = append(blocks, &Block{Enum: e})
	}
	add := func(t *Type) {
		t.Name = fmt.Sprintf("@t%d", len(g.types))
		g.types = append(g.types, t)
		g.refable = append(g.refable, t)
		blocks = append(blocks, &Block{Type: t})
	}
	add(&Type{Notation: "jsight", Schema: &Schema{Kind: "int", Lit: "12"}})
	if chance(r, 1, 2) {
		add(&Type{Notation: "jsight", Schema: &Schema{Kind: "str", Lit: `"abc"`, Str: "abc"}})
	}
	add(&Type{Notation: "regex", Pattern: pick(r, regexPatterns)})
	if chance(r, 1, 3) {
		add(&Type{Notation: "regex", Pattern: pick(r, regexPatterns)})
	}
	full := []string{"s", "{a}", "t", "{b}", "u", "{c}"}
	cuts := []int{2, 4, 6}
	// a random order of two or three of the prefixes
	for i := len(cuts) - 1; i > 0; i-- {
		j := r.Intn(i + 1)
		cuts[i], cuts[j] = cuts[j], cuts[i]
	}
	for _, c := range cuts[:2+r.Intn(2)] {
		if res := g.httpResourceAt("/" + strings.Join(full[:c], "/")); res != nil {
			blocks = append(blocks, &Block{Resource: res})
		}
	}
	// the declarations may come before or after the resources
	if chance(r, 1, 2) {
		k := len(blocks) - 1
		for k >= 0 && blocks[k].Resource != nil {
			k--
		}
		blocks = append(append([]*Block(nil), blocks[k+1:]...), blocks[:k+1]...)
	}
	g.Doc.Blocks = blocks
	return g.Doc
}

func (g *G) genEnum(i int) *Enum {
	r := g.R
	e := &Enum{Name: fmt.Sprintf("@e%d", i), Annotation: genAnnotation(r, 1, 3)}
	n := 1 + r.Intn(4)
	seen := map[string]bool{}
	for j := 0; j < n; j++ {
		var v EnumValue
		switch r.Intn(6) {
		case 0, 1:
			s := pick(r, []string{"red", "green", "blue", "a b", "", "v1.0", "3.14", "a.b"})
			v = EnumValue{Lit: lit(s), Tok: "string", SVal: s}
		case 2, 3:
			x := strconv.Itoa(r.Intn(50))
			v = EnumValue{Lit: x, Tok: "number", SVal: x}
		case 4:
			x := pick(r, []string{"true", "false"})
			v = EnumValue{Lit: x, Tok: "boolean", SVal: x}
		default:
			if chance(r, 1, 2) {
				v = EnumValue{Lit: "null", Tok: "null", SVal: "null"}
			} else {
				x := pick(r, []string{"2.5", "0.5"})
				v = EnumValue{Lit: x, Tok: "number", SVal: x}
			}
		}
		if seen[v.Lit] {
			continue
		}
		seen[v.Lit] = true
		if chance(r, 1, 3) {
			v.Note = genWords(r, 1+r.Intn(2))
		}
		e.Values = append(e.Values, v)
	}
	return e
}

// Gen generates a valid model.
func Gen(r Rnd) *Doc {
	g := &G{R: r, Doc: &Doc{}, pathDefs: map[string]bool{}, trie: map[string]string{}, ids: map[string]bool{}}
	g.Size = 0
	if chance(r, 1, 4) {
		g.Size = 1
	}
	var blocks []*Block
	// enums first (schemas may use them), then the type skeletons
	ne := r.Intn(3)
	for i := 0; i < ne; i++ {
		e := g.genEnum(i)
		g.enums = append(g.enums, e)
		blocks = append(blocks, &Block{Enum: e})
	}
	nt := r.Intn(4 + 2*g.Size)
	for i := 0; i < nt; i++ {
		t := &Type{Name: fmt.Sprintf("@t%d", i), Annotation: genAnnotation(r, 1, 3)}
		switch r.Intn(8) {
		case 0:
			t.Notation = "regex"
			t.Pattern = pick(r, regexPatterns)
		case 1:
			t.Notation = pick(r, []string{"any", "empty"})
		default:
			t.Notation = "jsight"
		}
		g.types = append(g.types, t)
	}
	// reference order = reverse declaration index: type i may refer to types with a larger index
	for i := len(g.types) - 1; i >= 0; i-- {
		t := g.types[i]
		var refs []*Type
		for _, u := range g.types[i+1:] {
			if u.Notation == "jsight" || u.Notation == "regex" {
				refs = append(refs, u)
			}
		}
		if t.Notation == "jsight" {
			t.Schema = g.genSchema(3, refs, false)
		}
	}
	for _, t := range g.types {
		if t.Notation == "jsight" || t.Notation == "regex" {
			g.refable = append(g.refable, t)
		}
		blocks = append(blocks, &Block{Type: t})
	}
	ntag := r.Intn(3)
	for i := 0; i < ntag; i++ {
		t := &Tag{Name: pick(r, []string{"@g%d", "@g%d", "@pet_store%d", "@a-b%d"}), Annotation: genAnnotation(r, 1, 2)}
		t.Name = fmt.Sprintf(t.Name, i)
		if chance(r, 1, 3) {
			// a declared tag named like the tag that untagged interactions get from their path ("/cats/..." -> @cats): such
			// interactions are listed under the declared tag
			cand := pick(r, []string{"@cats", "@dogs", "@a", "@b", "@rpc"})
			free := true
			for _, u := range g.tags {
				if u.Name == cand {
					free = false
				}
			}
			if free {
				t.Name = cand
			}
		}
		if chance(r, 1, 3) {
			t.Description = genDescription(r)
		}
		g.tags = append(g.tags, t)
		blocks = append(blocks, &Block{Tag: t})
	}
	if chance(r, 1, 2) {
		in := &Info{}
		if chance(r, 2, 3) {
			in.HasTitle, in.Title = true, pick(r, []string{"My API", "Cats", "api v2", "T", `say "hi"`, `back\slash`, `C:\dir\"x"`, "# not a comment", "a // b", "(paren)"})
		}
		if chance(r, 1, 2) {
			in.HasVersion, in.Version = true, pick(r, []string{"1.0", "0.3", "2", "v1 beta", `1.0 "rc"`, `2\3`})
		}
		if !in.HasTitle && !in.HasVersion || chance(r, 1, 3) {
			in.Description = genDescription(r)
		}
		blocks = append(blocks, &Block{Info: in})
	}
	ns := r.Intn(3)
	for i := 0; i < ns; i++ {
		blocks = append(blocks, &Block{Server: &Server{Name: fmt.Sprintf("@s%d", i), Annotation: genAnnotation(r, 1, 2),
			BaseURL: pick(r, []string{"https://api.example.com", "http://localhost:8080/v1", "https://h/{x}", "api.example.com"})}})
	}
	nr := 1 + r.Intn(3+2*g.Size)
	for i := 0; i < nr; i++ {
		if res := g.genResource(); res != nil {
			blocks = append(blocks, &Block{Resource: res})
		}
	}
	// interleave: random order of the top-level blocks
	for i := len(blocks) - 1; i > 0; i-- {
		j := r.Intn(i + 1)
		blocks[i], blocks[j] = blocks[j], blocks[i]
	}
	g.Doc.Blocks = blocks
	return g.Doc
}
