package mdl

import (
	"fmt"
	"strings"
)

// Fault injection for C03: each injector plants exactly one rule violation of a known class into a valid directive
// tree and says where the error must be reported (directive ID, or a unique token to be found in the rendered text) and
// which message it must carry (prefix patterns taken from the language's error list, jerr/const.go).

type Fault struct {
	Class   string
	Msg     []string // acceptable message prefixes / fragments (any of them must be contained in the message)
	DirID   int      // the offending directive
	Token   string   // when set: the error line is the line of this unique token (faults inside a body)
	AlsoIDs []int    // further directives on which the error may legitimately be reported (documented per class)
	// NextLine: the scanner reports a missing body where the body was expected: the line after the directive is accepted too
	NextLine bool
	// AtEndOfFile: the fault needs the faulty directive to be the last bytes of its file (no line break after it)
	AtEndOfFile bool
}

type injector struct {
	class string
	apply func(r Rnd, tree *[]*Dir, ids *int) *Fault
}

func collect(tree []*Dir, pred func(d, parent *Dir) bool) (out []*Dir, parents []*Dir) {
	Walk(tree, func(d, p *Dir) {
		if pred(d, p) {
			out = append(out, d)
			parents = append(parents, p)
		}
	})
	return
}

func isMethodKw(k string) bool {
	return k == "GET" || k == "POST" || k == "PUT" || k == "PATCH" || k == "DELETE"
}

func isCode(k string) bool { return len(k) == 3 && k[0] >= '1' && k[0] <= '5' }

// freshCopy deep-copies a directive with new IDs.
func freshCopy(d *Dir, ids *int) *Dir {
	c := *d
	*ids++
	c.ID = *ids
	c.Children = nil
	for _, ch := range d.Children {
		c.Children = append(c.Children, freshCopy(ch, ids))
	}
	return &c
}

func insertAfter(tree *[]*Dir, parent, after, nd *Dir) {
	list := tree
	if parent != nil {
		list = &parent.Children
	}
	for i, x := range *list {
		if x == after {
			nl := append([]*Dir(nil), (*list)[:i+1]...)
			nl = append(nl, nd)
			*list = append(nl, (*list)[i+1:]...)
			return
		}
	}
	*list = append(*list, nd)
}

func appendRoot(tree *[]*Dir, nd *Dir) { *tree = append(*tree, nd) }

func dupOf(kw string, class string, msg ...string) injector {
	return injector{class, func(r Rnd, tree *[]*Dir, ids *int) *Fault {
		cands, parents := collect(*tree, func(d, p *Dir) bool { return d.Kw == kw && p == nil })
		if len(cands) == 0 {
			return nil
		}
		i := r.Intn(len(cands))
		cp := freshCopy(cands[i], ids)
		if chance(r, 1, 2) {
			insertAfter(tree, parents[i], cands[i], cp)
		} else {
			appendRoot(tree, cp)
		}
		return &Fault{Class: class, Msg: msg, DirID: cp.ID}
	}}
}

// secondChild duplicates a child directive of the given keyword under a parent of the given kinds.
func secondChild(class, kw string, parentOK func(p *Dir) bool, msg ...string) injector {
	return injector{class, func(r Rnd, tree *[]*Dir, ids *int) *Fault {
		cands, parents := collect(*tree, func(d, p *Dir) bool { return d.Kw == kw && p != nil && parentOK(p) })
		if len(cands) == 0 {
			return nil
		}
		i := r.Intn(len(cands))
		cp := freshCopy(cands[i], ids)
		if chance(r, 1, 2) {
			insertAfter(tree, parents[i], cands[i], cp)
		} else {
			parents[i].Children = append(parents[i].Children, cp)
		}
		return &Fault{Class: class, Msg: msg, DirID: cp.ID}
	}}
}

func forbidAnnotation(kw string) injector {
	return injector{"annotation:" + kw, func(r Rnd, tree *[]*Dir, ids *int) *Fault {
		cands, _ := collect(*tree, func(d, p *Dir) bool { return d.Kw == kw && d.Annot == "" })
		if len(cands) == 0 {
			return nil
		}
		d := pick(r, cands)
		d.Annot = "forbidden note"
		return &Fault{Class: "annotation:" + kw, Msg: []string{"the annotation is not allowed for this directive"}, DirID: d.ID}
	}}
}

func dropParams(kw string, msg ...string) injector {
	return injector{"missing-parameter:" + kw, func(r Rnd, tree *[]*Dir, ids *int) *Fault {
		cands, _ := collect(*tree, func(d, p *Dir) bool { return d.Kw == kw && len(d.Params) > 0 })
		if len(cands) == 0 {
			return nil
		}
		d := pick(r, cands)
		d.Params = nil
		return &Fault{Class: "missing-parameter:" + kw, Msg: msg, DirID: d.ID}
	}}
}

func dropBody(kw string, nextLine bool, msg ...string) injector {
	return injector{"missing-body:" + kw, func(r Rnd, tree *[]*Dir, ids *int) *Fault {
		cands, _ := collect(*tree, func(d, p *Dir) bool {
			return d.Kw == kw && d.BodyKind != "" && (kw != "TYPE" || len(d.Params) == 1 || d.Params[1].Text == "jsight" || d.Params[1].Text == "regex")
		})
		// The body is missing only if what follows cannot be read as one: a response code is a valid number schema
		// ("200 /* note */" even with its annotation), and the lines after it may then scan as other directives - the
		// text would be another valid document, not a faulty one.  Sites followed by a response code are not used.
		var order []*Dir
		Walk(*tree, func(d, _ *Dir) { order = append(order, d) })
		next := map[*Dir]*Dir{}
		for i := 0; i+1 < len(order); i++ {
			next[order[i]] = order[i+1]
		}
		sound := cands[:0:0]
		for _, d := range cands {
			if n := next[d]; n == nil || !isCode(n.Kw) {
				sound = append(sound, d)
			}
		}
		cands = sound
		if len(cands) == 0 {
			return nil
		}
		d := pick(r, cands)
		d.BodyKind, d.Body = "", nil
		if nextLine {
			// a missing body is usually noticed by the scanner, whose message depends on what follows ("Invalid character
			// ... JSON value expected", "invalid character ... in Headers body"): any message is accepted, the location is not
			return &Fault{Class: "missing-body:" + kw, Msg: append(append([]string(nil), msg...), ""), DirID: d.ID, NextLine: true}
		}
		return &Fault{Class: "missing-body:" + kw, Msg: msg, DirID: d.ID, NextLine: nextLine}
	}}
}

const (
	msgNotUnique = "the directive has already been defined"
	msgDupName   = "has already been declared before"
	msgReqParam  = "required parameter(s) not specified"
)

// Injectors is the list of fault classes.
var Injectors = []injector{
	dupOf("TYPE", "duplicate:TYPE", msgDupName),
	dupOf("ENUM", "duplicate:ENUM", msgDupName),
	dupOf("SERVER", "duplicate:SERVER", msgDupName),
	dupOf("TAG", "duplicate:TAG", msgDupName),
	dupOf("INFO", "second:INFO", "The directive INFO has already been specified before"),
	{"duplicate:interaction", func(r Rnd, tree *[]*Dir, ids *int) *Fault {
		cands, parents := collect(*tree, func(d, p *Dir) bool { return isMethodKw(d.Kw) })
		if len(cands) == 0 {
			return nil
		}
		i := r.Intn(len(cands))
		cp := freshCopy(cands[i], ids)
		// an OperationId must stay unique: drop it from the copy
		var kids []*Dir
		for _, k := range cp.Children {
			if k.Kw != "OperationId" && k.Kw != "Path" {
				kids = append(kids, k)
			}
		}
		cp.Children = kids
		insertAfter(tree, parents[i], cands[i], cp)
		return &Fault{Class: "duplicate:interaction", Msg: []string{"this method has already been defined in the resource"}, DirID: cp.ID}
	}},
	{"duplicate:json-rpc-method", func(r Rnd, tree *[]*Dir, ids *int) *Fault {
		cands, parents := collect(*tree, func(d, p *Dir) bool { return d.Kw == "Method" })
		if len(cands) == 0 {
			return nil
		}
		i := r.Intn(len(cands))
		cp := freshCopy(cands[i], ids)
		parents[i].Children = append(parents[i].Children, cp)
		return &Fault{Class: "duplicate:json-rpc-method", Msg: []string{"this method has already been defined in the resource"}, DirID: cp.ID}
	}},
	{"duplicate:OperationId", func(r Rnd, tree *[]*Dir, ids *int) *Fault {
		ops, _ := collect(*tree, func(d, p *Dir) bool { return d.Kw == "OperationId" })
		meths, _ := collect(*tree, func(d, p *Dir) bool {
			if !isMethodKw(d.Kw) {
				return false
			}
			for _, k := range d.Children {
				if k.Kw == "OperationId" {
					return false
				}
			}
			return true
		})
		if len(ops) == 0 || len(meths) == 0 {
			return nil
		}
		src := pick(r, ops)
		m := pick(r, meths)
		cp := freshCopy(src, ids)
		m.Children = append([]*Dir{cp}, m.Children...)
		// whichever of the two comes later in the text is the offender
		return &Fault{Class: "duplicate:OperationId", Msg: []string{"the OperationId", "has already been defined"}, DirID: cp.ID, AlsoIDs: []int{src.ID}}
	}},
	{"duplicate:URL", func(r Rnd, tree *[]*Dir, ids *int) *Fault {
		cands, _ := collect(*tree, func(d, p *Dir) bool {
			if d.Kw != "URL" {
				return false
			}
			for _, k := range d.Children {
				if k.Kw == "Protocol" {
					return false
				}
			}
			return true
		})
		if len(cands) == 0 {
			return nil
		}
		u := pick(r, cands)
		*ids++
		nu := &Dir{ID: *ids, Kw: "URL", Params: u.Params}
		appendRoot(tree, nu)
		return &Fault{Class: "duplicate:URL", Msg: []string{"has already been defined"}, DirID: nu.ID}
	}},
	{"similar-paths", func(r Rnd, tree *[]*Dir, ids *int) *Fault {
		cands, _ := collect(*tree, func(d, p *Dir) bool {
			return (d.Kw == "URL" || isMethodKw(d.Kw)) && len(d.Params) > 0 && strings.Contains(d.Params[0].Text, "{")
		})
		if len(cands) == 0 {
			return nil
		}
		src := pick(r, cands)
		path := src.Params[0].Text
		pp := PathParams(path)
		p := pick(r, pp)
		np := strings.Replace(path, "{"+p+"}", "{"+p+"Other}", 1)
		*ids++
		nd := &Dir{ID: *ids, Kw: "GET", Params: []Param{textParam(np)}}
		*ids++
		nd.Children = []*Dir{{ID: *ids, Kw: "200", Params: []Param{bare("any")}}}
		switch r.Intn(4) {
		case 0:
			// the offending directive is an URL without children
			nd.Kw, nd.Children = "URL", nil
		case 1:
			// the path it collides with belongs to an URL without children, declared just before
			*ids++
			first := &Dir{ID: *ids, Kw: "URL", Params: []Param{textParam("/zz/{only}/x")}}
			appendRoot(tree, first)
			nd.Params = []Param{textParam("/zz/{onlyOther}/x")}
		}
		appendRoot(tree, nd)
		return &Fault{Class: "similar-paths", Msg: []string{"the ambiguous paths are not allowed"}, DirID: nd.ID}
	}},
	{"duplicated-path-parameter", func(r Rnd, tree *[]*Dir, ids *int) *Fault {
		*ids++
		nd := &Dir{ID: *ids, Kw: pick(r, []string{"GET", "POST", "URL"}), Params: []Param{textParam(pick(r, []string{"/zz/{dup}/y/{dup}", "/{dup}/{dup}", "/zz/{a1}/{dup}/{b1}/{dup}"}))}}
		if nd.Kw != "URL" {
			*ids++
			nd.Children = []*Dir{{ID: *ids, Kw: "200", Params: []Param{bare("any")}}}
		}
		appendRoot(tree, nd)
		return &Fault{Class: "duplicated-path-parameter", Msg: []string{"the parameter of the path is duplicated"}, DirID: nd.ID}
	}},
	secondChild("second:Title", "Title", func(p *Dir) bool { return p.Kw == "INFO" }, msgNotUnique),
	secondChild("second:Version", "Version", func(p *Dir) bool { return p.Kw == "INFO" }, msgNotUnique),
	secondChild("second:INFO-Description", "Description", func(p *Dir) bool { return p.Kw == "INFO" }, msgNotUnique),
	secondChild("second:method-Description", "Description", func(p *Dir) bool { return isMethodKw(p.Kw) }, msgNotUnique),
	secondChild("second:rpc-Description", "Description", func(p *Dir) bool { return p.Kw == "Method" }, msgNotUnique),
	secondChild("second:TAG-Description", "Description", func(p *Dir) bool { return p.Kw == "TAG" }, msgNotUnique),
	secondChild("second:Query", "Query", func(p *Dir) bool { return isMethodKw(p.Kw) }, msgNotUnique),
	secondChild("second:Headers", "Headers", func(p *Dir) bool { return p.Kw == "Request" || isCode(p.Kw) }, msgNotUnique),
	secondChild("second:Request-Body", "Body", func(p *Dir) bool { return p.Kw == "Request" }, msgNotUnique),
	secondChild("second:BaseUrl", "BaseUrl", func(p *Dir) bool { return p.Kw == "SERVER" }, "The directive BaseUrl has already been defined before"),
	secondChild("second:Protocol", "Protocol", func(p *Dir) bool { return p.Kw == "URL" }, msgNotUnique),
	secondChild("second:Params", "Params", func(p *Dir) bool { return p.Kw == "Method" }, msgNotUnique),
	secondChild("second:Result", "Result", func(p *Dir) bool { return p.Kw == "Method" }, msgNotUnique),
	{"second:Request", func(r Rnd, tree *[]*Dir, ids *int) *Fault {
		cands, parents := collect(*tree, func(d, p *Dir) bool { return d.Kw == "Request" && p != nil && isMethodKw(p.Kw) })
		if len(cands) == 0 {
			return nil
		}
		i := r.Intn(len(cands))
		*ids++
		nd := &Dir{ID: *ids, Kw: "Request"}
		switch r.Intn(4) {
		case 0:
			nd.Params = []Param{bare("any")}
		case 1:
			nd.Params, nd.BodyKind, nd.Body = []Param{bare("regex")}, "regex", []string{"/ab+/"}
		case 2:
			nd.BodyKind, nd.Body = "schema", []string{"{", `  "second": 2`, "}"}
		default:
			*ids++
			nd.Children = []*Dir{{ID: *ids, Kw: "Body", Params: []Param{bare("regex")}, BodyKind: "regex", Body: []string{"/x+/"}}}
		}
		parents[i].Children = append(parents[i].Children, nd)
		f := &Fault{Class: "second:Request", Msg: []string{msgNotUnique}, DirID: nd.ID}
		if len(nd.Children) > 0 {
			f.AlsoIDs = []int{nd.Children[0].ID} // the second body is the Body child
		}
		return f
	}},
	{"second:response-Body-directive", func(r Rnd, tree *[]*Dir, ids *int) *Fault {
		// a response whose body is given twice: two Body children, or a schema on the lines after the code plus a Body child
		cands, _ := collect(*tree, func(d, p *Dir) bool {
			if !isCode(d.Kw) || len(d.Params) > 0 {
				return false
			}
			if d.BodyKind != "" {
				return true
			}
			for _, c := range d.Children {
				if c.Kw == "Body" {
					return true
				}
			}
			return false
		})
		if len(cands) == 0 {
			return nil
		}
		d := pick(r, cands)
		*ids++
		nd := &Dir{ID: *ids, Kw: "Body", BodyKind: "schema", Body: []string{"{", `  "second": 2`, "}"}}
		d.Children = append(d.Children, nd)
		return &Fault{Class: "second:response-Body-directive", Msg: []string{msgNotUnique}, DirID: nd.ID}
	}},
	{"second:response-body", func(r Rnd, tree *[]*Dir, ids *int) *Fault {
		// a response that names its type on the keyword line and again through a Body child
		cands, _ := collect(*tree, func(d, p *Dir) bool {
			if !isCode(d.Kw) || len(d.Params) == 0 || !strings.Contains(d.Params[0].Text, "@") {
				return false
			}
			for _, c := range d.Children {
				if c.Kw == "Body" {
					return false
				}
			}
			return true
		})
		if len(cands) == 0 {
			return nil
		}
		d := pick(r, cands)
		*ids++
		nd := &Dir{ID: *ids, Kw: "Body", Params: []Param{d.Params[0]}}
		d.Children = append(d.Children, nd)
		return &Fault{Class: "second:response-body", Msg: []string{"You cannot specify User Type in the response directive if it has a child Body directive", "the directive should not have parameters in this case"}, DirID: nd.ID,
			AlsoIDs: []int{d.ID}} // the conflict is between the two directives: either one is "the offending directive"
	}},
	{"undefined:type-parameter", func(r Rnd, tree *[]*Dir, ids *int) *Fault {
		cands, _ := collect(*tree, func(d, p *Dir) bool { return isMethodKw(d.Kw) })
		if len(cands) == 0 {
			return nil
		}
		m := pick(r, cands)
		*ids++
		nd := &Dir{ID: *ids, Kw: pick(r, []string{"200", "404", "500"}), Params: []Param{bare(pick(r, []string{"@undefinedType", "[@undefinedType]"}))}}
		m.Children = append(m.Children, nd)
		return &Fault{Class: "undefined:type-parameter", Msg: []string{"not found"}, DirID: nd.ID}
	}},
	{"undefined:type-in-schema", func(r Rnd, tree *[]*Dir, ids *int) *Fault {
		cands, _ := collect(*tree, func(d, p *Dir) bool {
			return d.BodyKind == "schema" && d.Kw != "Path" && len(d.Body) >= 3 && strings.HasPrefix(d.Body[0], "{")
		})
		if len(cands) == 0 {
			return nil
		}
		d := pick(r, cands)
		// add a property referring to an undefined type as the first property of the root object
		nb := []string{d.Body[0], `  "zzUndefined": @undefinedType,`}
		nb = append(nb, d.Body[1:]...)
		d.Body = nb
		return &Fault{Class: "undefined:type-in-schema", Msg: []string{"not found"}, DirID: d.ID, Token: "@undefinedType"}
	}},
	{"undefined:type-in-path-schema", func(r Rnd, tree *[]*Dir, ids *int) *Fault {
		// a path variable described as one of two types that do not exist: the Path schema passes the checks made on
		// the directive itself and fails when the path variables of the interaction are assembled (possibly from the Path
		// directives of several places) - the error belongs to the Path directive that holds the reference
		cands, _ := collect(*tree, func(d, p *Dir) bool {
			return d.Kw == "Path" && d.BodyKind == "schema" && len(d.Body) >= 3 && d.Body[0] == "{"
		})
		if len(cands) == 0 {
			return nil
		}
		d := pick(r, cands)
		i := 1 + r.Intn(len(d.Body)-2)
		line := d.Body[i]
		k := strings.Index(line, "\": ")
		if k < 0 {
			return nil
		}
		nl := line[:k+3] + "@undefinedType | @undefinedOther"
		if i < len(d.Body)-2 {
			nl += ","
		}
		nb := append([]string(nil), d.Body...)
		nb[i] = nl
		d.Body = nb
		return &Fault{Class: "undefined:type-in-path-schema", Msg: []string{"not found"}, DirID: d.ID}
	}},
	{"undefined:type-in-path-schema-of-childless-url", func(r Rnd, tree *[]*Dir, ids *int) *Fault {
		// a URL that has a Path directive and no method: no interaction ever uses the Path schema
		*ids++
		p := &Dir{ID: *ids, Kw: "Path", BodyKind: "schema", Body: []string{"{", `  "zq": @undefinedType | @undefinedOther`, "}"}}
		*ids++
		u := &Dir{ID: *ids, Kw: "URL", Params: []Param{bare("/zz-childless/{zq}")}, Children: []*Dir{p}}
		at := 1 + r.Intn(len(*tree))
		nl := append([]*Dir(nil), (*tree)[:at]...)
		nl = append(nl, u)
		*tree = append(nl, (*tree)[at:]...)
		return &Fault{Class: "undefined:type-in-path-schema-of-childless-url", Msg: []string{"not found"}, DirID: p.ID}
	}},
	{"undefined:type-key-shortcut-in-path", func(r Rnd, tree *[]*Dir, ids *int) *Fault {
		// a property whose key is an undefined type, next to the properties that describe the path variables
		cands, _ := collect(*tree, func(d, p *Dir) bool {
			return d.Kw == "Path" && d.BodyKind == "schema" && len(d.Body) >= 3 && d.Body[0] == "{"
		})
		if len(cands) == 0 {
			return nil
		}
		d := pick(r, cands)
		nb := []string{d.Body[0], "  @undefinedType : 1,"}
		nb = append(nb, d.Body[1:]...)
		d.Body = nb
		return &Fault{Class: "undefined:type-key-shortcut-in-path", Msg: []string{"not found"}, DirID: d.ID}
	}},
	{"second:Path", func(r Rnd, tree *[]*Dir, ids *int) *Fault {
		// the Path directive of a URL is cut in two: the second one, after the methods (one of which may have a Path of
		// its own), describes the last property
		cands, _ := collect(*tree, func(d, p *Dir) bool {
			if d.Kw != "URL" {
				return false
			}
			for _, k := range d.Children {
				if k.Kw == "Path" && k.BodyKind == "schema" && len(k.Body) >= 4 && k.Body[0] == "{" && k.Body[len(k.Body)-1] == "}" {
					return true
				}
			}
			return false
		})
		if len(cands) == 0 {
			return nil
		}
		u := pick(r, cands)
		var p1 *Dir
		for _, k := range u.Children {
			if k.Kw == "Path" {
				p1 = k
			}
		}
		n := len(p1.Body)
		last := p1.Body[n-2]
		prev := p1.Body[n-3]
		// the line before the last property loses its comma (it stands before the rule comment, if there is one)
		if i := strings.Index(prev, " //"); i >= 0 && strings.HasSuffix(strings.TrimRight(prev[:i], " "), ",") {
			prev = strings.TrimSuffix(strings.TrimRight(prev[:i], " "), ",") + prev[i:]
		} else if strings.HasSuffix(prev, ",") {
			prev = strings.TrimSuffix(prev, ",")
		} else {
			return nil
		}
		nb := append([]string(nil), p1.Body[:n-3]...)
		nb = append(nb, prev, "}")
		p1.Body = nb
		*ids++
		p2 := &Dir{ID: *ids, Kw: "Path", BodyKind: "schema", Body: []string{"{", last, "}"}}
		// (the directive before it closes its context explicitly, or the new Path would be its child)
		if k := u.Children[len(u.Children)-1]; k != p1 && isMethodKw(k.Kw) {
			k.Explicit = "yes"
		}
		u.Children = append(u.Children, p2)
		return &Fault{Class: "second:Path", Msg: []string{msgNotUnique}, DirID: p2.ID}
	}},
	{"undefined:tag", func(r Rnd, tree *[]*Dir, ids *int) *Fault {
		cands, _ := collect(*tree, func(d, p *Dir) bool {
			if !isMethodKw(d.Kw) && d.Kw != "Method" {
				return false
			}
			for _, k := range d.Children {
				if k.Kw == "Tags" {
					return false
				}
			}
			return true
		})
		if len(cands) == 0 {
			return nil
		}
		if chance(r, 1, 3) {
			// the name of the tag that an earlier, untagged interaction gets from its path: not a declared TAG either
			*ids += 5
			first := &Dir{ID: *ids - 4, Kw: "GET", Params: []Param{bare("/zzpath")}, Children: []*Dir{{ID: *ids - 3, Kw: "200", Params: []Param{bare("any")}}}}
			nd := &Dir{ID: *ids - 2, Kw: "Tags", Params: []Param{bare("@zzpath")}}
			second := &Dir{ID: *ids - 1, Kw: "GET", Params: []Param{bare("/zzother")}, Children: []*Dir{nd, {ID: *ids, Kw: "200", Params: []Param{bare("any")}}}}
			if chance(r, 1, 2) {
				appendRoot(tree, first)
				appendRoot(tree, second)
			} else {
				appendRoot(tree, second)
				appendRoot(tree, first)
			}
			return &Fault{Class: "undefined:tag", Msg: []string{"tag not found"}, DirID: nd.ID}
		}
		m := pick(r, cands)
		*ids++
		nd := &Dir{ID: *ids, Kw: "Tags", Params: []Param{bare("@undefinedTag")}}
		m.Children = append([]*Dir{nd}, m.Children...)
		return &Fault{Class: "undefined:tag", Msg: []string{"tag not found"}, DirID: nd.ID}
	}},
	{"undefined:macro", func(r Rnd, tree *[]*Dir, ids *int) *Fault {
		cands, _ := collect(*tree, func(d, p *Dir) bool { return isMethodKw(d.Kw) || d.Kw == "INFO" || d.Kw == "SERVER" })
		*ids++
		nd := &Dir{ID: *ids, Kw: "PASTE", Params: []Param{bare("@undefinedMacro")}}
		if len(cands) == 0 || chance(r, 1, 3) {
			appendRoot(tree, nd)
		} else {
			m := pick(r, cands)
			m.Children = append(m.Children, nd)
		}
		return &Fault{Class: "undefined:macro", Msg: []string{"macro not found"}, DirID: nd.ID}
	}},
	{"second-tags-directive", func(r Rnd, tree *[]*Dir, ids *int) *Fault {
		// a method may carry several Tags directives (the first one counts, all are validated): the fault sits in a later one
		cands, _ := collect(*tree, func(d, p *Dir) bool {
			if !isMethodKw(d.Kw) && d.Kw != "Method" {
				return false
			}
			for _, k := range d.Children {
				if k.Kw == "Tags" {
					return true
				}
			}
			return false
		})
		if len(cands) == 0 {
			return nil
		}
		m := pick(r, cands)
		var first *Dir
		at := 0
		for i, k := range m.Children {
			if k.Kw == "Tags" {
				first, at = k, i
				break
			}
		}
		*ids++
		nd := &Dir{ID: *ids, Kw: "Tags", Params: append([]Param(nil), first.Params...)}
		f := &Fault{DirID: nd.ID}
		switch r.Intn(3) {
		case 0:
			nd.Params = []Param{bare("@undefinedTag")}
			f.Class, f.Msg = "undefined:tag", []string{"tag not found"}
		case 1:
			nd.Annot = "forbidden note"
			f.Class, f.Msg = "annotation:Tags", []string{"the annotation is not allowed for this directive"}
		default:
			nd.Params = nil
			f.Class, f.Msg = "missing-parameter:Tags", []string{msgReqParam}
		}
		// right after the first Tags directive (both are leaves: no context question arises)
		nl := append([]*Dir(nil), m.Children[:at+1]...)
		nl = append(nl, nd)
		m.Children = append(nl, m.Children[at+1:]...)
		return f
	}},
	dropParams("SERVER", msgReqParam),
	{"missing-parameter:TYPE", func(r Rnd, tree *[]*Dir, ids *int) *Fault {
		// only jsight types written without an explicit notation: the name is their only parameter
		// ... and types nobody refers to (otherwise the dangling references are a second fault)
		used := func(name string, self *Dir) bool {
			u := false
			Walk(*tree, func(x, _ *Dir) {
				if x == self {
					return
				}
				for _, p := range x.Params {
					if strings.Contains(p.Text, name) {
						u = true
					}
				}
				for _, l := range x.Body {
					if strings.Contains(l, name) {
						u = true
					}
				}
			})
			return u
		}
		cands, _ := collect(*tree, func(d, p *Dir) bool { return d.Kw == "TYPE" && len(d.Params) == 1 && !used(d.Params[0].Text, d) })
		if len(cands) == 0 {
			return nil
		}
		d := pick(r, cands)
		d.Params = nil
		return &Fault{Class: "missing-parameter:TYPE", Msg: []string{msgReqParam}, DirID: d.ID}
	}},
	// (was) dropParams("TYPE"): a TYPE without a name is refused by the schema library ("The type name \"\" is not valid") or, without a notation either, for its missing body
	dropParams("Title", msgReqParam),
	dropParams("Version", msgReqParam),
	dropParams("BaseUrl", msgReqParam),
	dropParams("OperationId", msgReqParam),
	dropParams("Method", msgReqParam),
	dropParams("Protocol", msgReqParam),
	dropParams("TAG", msgReqParam),
	{"missing-parameter:ENUM", func(r Rnd, tree *[]*Dir, ids *int) *Fault {
		// only enums nobody refers to (otherwise the dangling references are a second fault)
		cands, _ := collect(*tree, func(d, p *Dir) bool {
			if d.Kw != "ENUM" || len(d.Params) == 0 {
				return false
			}
			used := false
			Walk(*tree, func(x, _ *Dir) {
				for _, bl := range x.Body {
					if strings.Contains(bl, d.Params[0].Text) {
						used = true
					}
				}
			})
			return !used
		})
		if len(cands) == 0 {
			return nil
		}
		d := pick(r, cands)
		d.Params = nil
		return &Fault{Class: "missing-parameter:ENUM", Msg: []string{msgReqParam}, DirID: d.ID}
	}},
	dropParams("Tags", msgReqParam),
	dropParams("JSIGHT", msgReqParam),
	{"missing-parameter:URL", func(r Rnd, tree *[]*Dir, ids *int) *Fault {
		cands, _ := collect(*tree, func(d, p *Dir) bool { return d.Kw == "URL" && len(d.Params) > 0 })
		if len(cands) == 0 {
			return nil
		}
		d := pick(r, cands)
		d.Params = nil
		// the path is resolved lazily: the error is raised on the URL or on the first descendant that needs the path
		var also []int
		Walk(d.Children, func(x, _ *Dir) { also = append(also, x.ID) })
		return &Fault{Class: "missing-parameter:URL", Msg: []string{"path not found", "incorrect path", msgReqParam}, DirID: d.ID, AlsoIDs: also}
	}},
	dropBody("Query", true, "the body cannot be empty"),
	dropBody("Headers", true, "the body cannot be empty"),
	dropBody("Path", true, "the body cannot be empty"),
	dropBody("Params", true, "the body cannot be empty"),
	dropBody("Result", true, "the body cannot be empty"),
	dropBody("TYPE", true, "the body cannot be empty"),
	dropBody("ENUM", true, "the body cannot be empty"),
	{"missing-body:ENUM", func(r Rnd, tree *[]*Dir, ids *int) *Fault {
		// an ENUM without a body as the very last directive, the file ending right after its name
		*ids++
		nd := &Dir{ID: *ids, Kw: "ENUM", Params: []Param{{Text: "@zzLastEnum", NoQuote: true}}}
		appendRoot(tree, nd)
		return &Fault{Class: "missing-body:ENUM", Msg: []string{"the body cannot be empty", ""}, DirID: nd.ID, NextLine: true, AtEndOfFile: true}
	}},
	dropBody("Description", true, "the description cannot be empty"),
	{"missing-body:response", func(r Rnd, tree *[]*Dir, ids *int) *Fault {
		cands, _ := collect(*tree, func(d, p *Dir) bool { return isMethodKw(d.Kw) })
		if len(cands) == 0 {
			return nil
		}
		m := pick(r, cands)
		*ids++
		nd := &Dir{ID: *ids, Kw: pick(r, []string{"201", "404"})}
		m.Children = append(m.Children, nd)
		return &Fault{Class: "missing-body:response", Msg: []string{"undefined response body for resource", ""}, DirID: nd.ID, NextLine: true}
	}},
	{"missing-body:Request", func(r Rnd, tree *[]*Dir, ids *int) *Fault {
		cands, _ := collect(*tree, func(d, p *Dir) bool {
			if !isMethodKw(d.Kw) {
				return false
			}
			for _, k := range d.Children {
				if k.Kw == "Request" {
					return false
				}
			}
			return true
		})
		if len(cands) == 0 {
			return nil
		}
		m := pick(r, cands)
		*ids++
		nd := &Dir{ID: *ids, Kw: "Request"}
		*ids++
		nd.Children = []*Dir{{ID: *ids, Kw: "Headers", BodyKind: "schema", Body: []string{"{", `  "h": 1`, "}"}}}
		m.Children = append(m.Children, nd)
		return &Fault{Class: "missing-body:Request", Msg: []string{"undefined request body for resource"}, DirID: nd.ID}
	}},
	{"empty:INFO", func(r Rnd, tree *[]*Dir, ids *int) *Fault {
		cands, _ := collect(*tree, func(d, p *Dir) bool { return d.Kw == "INFO" })
		if len(cands) == 0 {
			return nil
		}
		d := pick(r, cands)
		d.Children = nil
		return &Fault{Class: "empty:INFO", Msg: []string{"the INFO directive cannot be empty"}, DirID: d.ID}
	}},
	forbidAnnotation("JSIGHT"), forbidAnnotation("INFO"), forbidAnnotation("Title"), forbidAnnotation("Version"), forbidAnnotation("Description"),
	forbidAnnotation("BaseUrl"), forbidAnnotation("URL"), forbidAnnotation("Query"), forbidAnnotation("Request"), forbidAnnotation("Headers"),
	forbidAnnotation("Protocol"), forbidAnnotation("Params"), forbidAnnotation("Result"), forbidAnnotation("Path"), forbidAnnotation("Tags"),
	forbidAnnotation("OperationId"), forbidAnnotation("Body"),
	{"jsight:missing", func(r Rnd, tree *[]*Dir, ids *int) *Fault {
		if len(*tree) < 2 {
			return nil
		}
		*tree = (*tree)[1:]
		if (*tree)[0].Kw == "PASTE" {
			// the first directive is then a pasted one: the error may name the PASTE or the directive in the macro body
			return nil
		}
		return &Fault{Class: "jsight:missing", Msg: []string{"The first directive in the document must be JSIGHT"}, DirID: (*tree)[0].ID}
	}},
	{"jsight:repeated", func(r Rnd, tree *[]*Dir, ids *int) *Fault {
		*ids++
		nd := &Dir{ID: *ids, Kw: "JSIGHT", Params: []Param{{Text: "0.3"}}}
		at := 1 + r.Intn(len(*tree))
		nl := append([]*Dir(nil), (*tree)[:at]...)
		nl = append(nl, nd)
		*tree = append(nl, (*tree)[at:]...)
		return &Fault{Class: "jsight:repeated", Msg: []string{"The directive JSIGHT has already been specified before"}, DirID: nd.ID}
	}},
	{"jsight:not-first", func(r Rnd, tree *[]*Dir, ids *int) *Fault {
		if len(*tree) < 2 {
			return nil
		}
		js := (*tree)[0]
		rest := (*tree)[1:]
		at := 1 + r.Intn(len(rest))
		nl := append([]*Dir(nil), rest[:at]...)
		nl = append(nl, js)
		*tree = append(nl, rest[at:]...)
		if (*tree)[0].Kw == "PASTE" {
			return nil
		}
		return &Fault{Class: "jsight:not-first", Msg: []string{"The first directive in the document must be JSIGHT"}, DirID: (*tree)[0].ID}
	}},
	{"jsight:unsupported-version", func(r Rnd, tree *[]*Dir, ids *int) *Fault {
		(*tree)[0].Params = []Param{{Text: pick(r, []string{"0.4", "0.2", "1.0", "0.30"})}}
		return &Fault{Class: "jsight:unsupported-version", Msg: []string{"The specified JSight version is not supported"}, DirID: (*tree)[0].ID}
	}},
}

// Inject applies one injector (chosen by index) to a deep copy of the tree.
func Inject(r Rnd, tree []*Dir, which int) ([]*Dir, *Fault) {
	t := CloneTree(tree)
	ids := 300000
	f := Injectors[which%len(Injectors)].apply(r, &t, &ids)
	if f == nil {
		return nil, nil
	}
	return t, f
}

func (f *Fault) String() string { return fmt.Sprintf("%s @%d %v", f.Class, f.DirID, f.Msg) }

// MacroInjectors work on a tree that already contains MACRO / PASTE nodes.
var MacroInjectors = []injector{
	{"duplicate:MACRO", func(r Rnd, tree *[]*Dir, ids *int) *Fault {
		cands, _ := collect(*tree, func(d, p *Dir) bool { return d.Kw == "MACRO" && p == nil })
		if len(cands) == 0 {
			return nil
		}
		cp := freshCopy(pick(r, cands), ids)
		appendRoot(tree, cp)
		return &Fault{Class: "duplicate:MACRO", Msg: []string{msgDupName}, DirID: cp.ID}
	}},
	dropParams("MACRO", msgReqParam),
	dropParams("PASTE", msgReqParam),
	{"missing-parameter:PASTE", func(r Rnd, tree *[]*Dir, ids *int) *Fault {
		// a PASTE without a name inside a MACRO body: of a macro that is used, or of one that nobody pastes
		*ids++
		nd := &Dir{ID: *ids, Kw: "PASTE"}
		macros, _ := collect(*tree, func(d, p *Dir) bool { return d.Kw == "MACRO" && p == nil && len(d.Children) > 0 })
		if len(macros) > 0 && chance(r, 2, 3) {
			m := pick(r, macros)
			at := r.Intn(len(m.Children) + 1)
			nl := append([]*Dir(nil), m.Children[:at]...)
			nl = append(nl, nd)
			m.Children = append(nl, m.Children[at:]...)
		} else {
			*ids += 2
			def := &Dir{ID: *ids - 1, Kw: "MACRO", Params: []Param{{Text: "@neverPasted", NoQuote: true}}, Explicit: "yes",
				Children: []*Dir{{ID: *ids, Kw: "200", Params: []Param{bare("any")}}, nd}}
			appendRoot(tree, def)
		}
		return &Fault{Class: "missing-parameter:PASTE", Msg: []string{msgReqParam}, DirID: nd.ID}
	}},
	forbidAnnotation("MACRO"),
	forbidAnnotation("PASTE"),
	{"empty:MACRO", func(r Rnd, tree *[]*Dir, ids *int) *Fault {
		*ids++
		nd := &Dir{ID: *ids, Kw: "MACRO", Params: []Param{bare("@emptyMacro")}, Explicit: "no"}
		appendRoot(tree, nd)
		return &Fault{Class: "empty:MACRO", Msg: []string{"the macros cannot be empty"}, DirID: nd.ID}
	}},
}

func InjectMacro(r Rnd, tree []*Dir, which int) ([]*Dir, *Fault) {
	t := CloneTree(tree)
	ids := 400000
	f := MacroInjectors[which%len(MacroInjectors)].apply(r, &t, &ids)
	if f == nil {
		return nil, nil
	}
	return t, f
}

// PasteSites returns the IDs of the PASTE directives whose expansion (transitively) contains the directive with the given
// ID.  Errors that arise while a PASTE is expanded are reported on that PASTE (pinned by testdata/jsight_0.3/req.japi.macro/
// err_*_macro_*.jst), so for faults of the paste phase these are legitimate locations as well.
func PasteSites(tree []*Dir, id int) []int {
	defs := map[string]*Dir{}
	Walk(tree, func(d, _ *Dir) {
		if d.Kw == "MACRO" && len(d.Params) > 0 {
			defs[d.Params[0].Text] = d
		}
	})
	var contains func(d *Dir, seen map[string]bool) bool
	contains = func(d *Dir, seen map[string]bool) bool {
		found := false
		Walk(d.Children, func(x, _ *Dir) {
			if x.ID == id {
				found = true
			}
			if x.Kw == "PASTE" && len(x.Params) > 0 && !seen[x.Params[0].Text] {
				if def := defs[x.Params[0].Text]; def != nil {
					seen[x.Params[0].Text] = true
					if contains(def, seen) {
						found = true
					}
				}
			}
		})
		return found
	}
	var out []int
	Walk(tree, func(d, _ *Dir) {
		if d.Kw == "PASTE" && len(d.Params) > 0 && d.ID != id {
			if def := defs[d.Params[0].Text]; def != nil && contains(def, map[string]bool{d.Params[0].Text: true}) {
				out = append(out, d.ID)
			}
		}
	})
	return out
}

// ScanInjectors plant faults that the core notices while it scans (a superfluous parameter, a parameter given twice, an
// annotation where the scanner already refuses it).  They are not among the fault classes of C03; C09 uses them because
// these errors are located through the file that is being scanned, which changes at every INCLUDE.
var ScanInjectors = []injector{
	{"extra-parameter", func(r Rnd, tree *[]*Dir, ids *int) *Fault {
		cands, _ := collect(*tree, func(d, p *Dir) bool {
			switch d.Kw {
			case "TAG", "Version", "Title", "BaseUrl", "Protocol", "OperationId", "SERVER", "ENUM", "Method":
				return len(d.Params) == 1
			}
			return false
		})
		if len(cands) == 0 {
			return nil
		}
		d := pick(r, cands)
		d.Params = append(append([]Param(nil), d.Params...), bare("superfluous"))
		return &Fault{Class: "extra-parameter:" + d.Kw, Msg: []string{"incorrect parameter"}, DirID: d.ID}
	}},
	{"extra-parameter-root-method", func(r Rnd, tree *[]*Dir, ids *int) *Fault {
		cands, _ := collect(*tree, func(d, p *Dir) bool { return (isMethodKw(d.Kw) || d.Kw == "URL") && len(d.Params) == 1 })
		if len(cands) == 0 {
			return nil
		}
		d := pick(r, cands)
		d.Params = append(append([]Param(nil), d.Params...), bare("/second/path"))
		return &Fault{Class: "extra-parameter:" + d.Kw, Msg: []string{"already defined", "incorrect parameter"}, DirID: d.ID}
	}},
}

func InjectScan(r Rnd, tree []*Dir, which int) ([]*Dir, *Fault) {
	t := CloneTree(tree)
	ids := 500000
	f := ScanInjectors[which%len(ScanInjectors)].apply(r, &t, &ids)
	if f == nil {
		return nil, nil
	}
	return t, f
}
