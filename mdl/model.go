// Package mdl is the abstract API model of the verification harness: model types, constructive generators, the
// directive-tree renderer with independent layout choices, and the expected JDoc Exchange catalog computed from the
// model alone (it shares no code with the repository under test).
package mdl

import (
	"fmt"
	"strings"
)

// Rnd is the source of choices (always backed by rapid in the checks).
type Rnd interface{ Intn(n int) int }

func pick[T any](r Rnd, xs []T) T { return xs[r.Intn(len(xs))] }
func chance(r Rnd, a, b int) bool { return r.Intn(b) < a }

// ---- schema ------------------------------------------------------------------------------------------------------

type Rule struct {
	Key  string
	Val  string // as written: 1, "abc", true, @e, "@t"
	Tok  string // tokenType in the catalog: number | string | boolean | reference
	SVal string // scalarValue in the catalog
}

type Schema struct {
	Kind  string // obj | arr | int | float | str | bool | null | ref | or
	Lit   string // scalar literal as written (JSON), e.g. 12, 1.50, "Tom", true, null
	Str   string // decoded string value for Kind == str
	Props []Prop
	Items []*Schema
	Ref   string   // @type for ref
	Or    []string // @a, @b for or
	Rules []Rule
	Note  string
}

type Prop struct {
	Key string
	Val *Schema
}

func (s *Schema) Optional() bool {
	for _, r := range s.Rules {
		if r.Key == "optional" && r.Val == "true" {
			return true
		}
	}
	return false
}

// ---- entities ----------------------------------------------------------------------------------------------------

type Info struct {
	Title, Version string
	Description    []string // lines; nil = absent
	HasTitle       bool
	HasVersion     bool
}

type Server struct {
	Name, Annotation, BaseURL string
}

type Tag struct {
	Name, Annotation string
	Description      []string
}

type EnumValue struct {
	Lit  string // as written
	Tok  string
	SVal string
	Note string
}

type Enum struct {
	Name, Annotation string
	Values           []EnumValue
}

type Type struct {
	Name, Annotation string
	Notation         string // jsight | regex | any | empty
	Schema           *Schema
	Pattern          string // regex body without slashes
}

// Body of a request / response.
type Body struct {
	Kind    string // schema | type | array | regex | any | empty
	Schema  *Schema
	Type    string // @t  (Kind type / array)
	Pattern string
}

type Response struct {
	Code       string
	Annotation string
	Headers    *Schema
	Body       *Body
}

type Query struct {
	Example string // "" = none
	Format  string // "" = default, htmlFormEncoded, noFormat
	Schema  *Schema
}

type Request struct {
	Headers *Schema
	Body    *Body
}

type HTTPMethod struct {
	Verb        string
	Path        string // full path of the interaction
	Annotation  string
	Description []string
	Tags        []string // explicit Tags on the method (nil = none)
	OperationID string
	PathSchema  *Schema // object schema describing a subset of the parameters (nil = none); defined at method level
	Query       *Query
	Request     *Request
	Responses   []*Response
	// ChildOrder is the order in which the optional children are written (layout dimension that must not matter for
	// anything but the response order, which is fixed by Responses).
	ChildOrder []string
}

type RPCMethod struct {
	Name        string
	Annotation  string
	Description []string
	Tags        []string
	Params      *Schema
	Result      *Schema
}

// Resource is a top-level URL block or a stand-alone method.
type Resource struct {
	Path       string
	Grouped    bool     // written as URL + methods without path (false: every method stand-alone with its path)
	Tags       []string // URL-level Tags (only when Grouped)
	PathSchema *Schema  // URL-level Path (only when Grouped)
	Methods    []*HTTPMethod
	RPC        []*RPCMethod // json-rpc resource (then Methods is empty and Grouped is true)
}

type Block struct {
	Info     *Info
	Server   *Server
	Tag      *Tag
	Enum     *Enum
	Type     *Type
	Resource *Resource
}

type Doc struct {
	Blocks []*Block
}

func (d *Doc) Types() []*Type {
	var tt []*Type
	for _, b := range d.Blocks {
		if b.Type != nil {
			tt = append(tt, b.Type)
		}
	}
	return tt
}

func (d *Doc) TypeByName(n string) *Type {
	for _, t := range d.Types() {
		if t.Name == n {
			return t
		}
	}
	return nil
}

func (d *Doc) Enums() []*Enum {
	var ee []*Enum
	for _, b := range d.Blocks {
		if b.Enum != nil {
			ee = append(ee, b.Enum)
		}
	}
	return ee
}

func (d *Doc) Tags() []*Tag {
	var tt []*Tag
	for _, b := range d.Blocks {
		if b.Tag != nil {
			tt = append(tt, b.Tag)
		}
	}
	return tt
}

func (d *Doc) Resources() []*Resource {
	var rr []*Resource
	for _, b := range d.Blocks {
		if b.Resource != nil {
			rr = append(rr, b.Resource)
		}
	}
	return rr
}

// PathParams returns the {parameters} of a path in order.
func PathParams(path string) []string {
	var out []string
	for _, seg := range strings.Split(path, "/") {
		if len(seg) >= 2 && seg[0] == '{' && seg[len(seg)-1] == '}' {
			out = append(out, seg[1:len(seg)-1])
		}
	}
	return out
}

// PathPrefix returns the path up to and including the i-th parameter, without the leading slash
// (the key under which the definition of a path parameter is shared between interactions).
func PathPrefix(path string, param string) string {
	var segs []string
	for _, seg := range strings.Split(strings.Trim(path, "/"), "/") {
		if seg == "" {
			continue
		}
		segs = append(segs, seg)
		if seg == "{"+param+"}" {
			break
		}
	}
	return strings.Join(segs, "/")
}

func (d *Doc) String() string {
	return fmt.Sprintf("doc with %d blocks", len(d.Blocks))
}
