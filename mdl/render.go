package mdl

import (
	"fmt"
	"sort"
	"strings"
)

// Span is an expected lexeme: type code (K keyword, P parameter, A annotation, ( ) parentheses, S schema, T text, E enum),
// first and last byte.
type Span struct {
	T    byte
	B, E int
}

// Pos is the position of a directive keyword.
type Pos struct {
	File  string
	Line  int // 1-based
	Index int // byte index of the keyword
	// Chain is the include chain through which the directive is reached, innermost first: (file, line of the INCLUDE)
	Chain []ChainLink
}

type ChainLink struct {
	File string
	Line int
}

// Layout holds the layout decisions of one rendering.  With Plain set no random decision is taken.
type Layout struct {
	Seed  uint64 // every decision is a pure function of (Seed, directive ID, decision name): independent of rendering order
	Plain bool
	EOL   string // "\n", "\r\n", "\r"
	Unit  string // indentation unit
	// probabilities (x/12) of the optional features
	PExplicit, PTrivia, PQuote, PBlockAnnot, PTrail, PEolComment, PInline int
	NoFinalEOL                                                            bool
}

func PlainLayout() *Layout { return &Layout{Plain: true, EOL: "\n", Unit: "  "} }

func RandomLayout(r Rnd) *Layout {
	l := &Layout{Seed: uint64(r.Intn(1<<30))<<30 | uint64(r.Intn(1<<30))}
	l.EOL = pick(r, []string{"\n", "\n", "\n", "\r\n", "\r"})
	l.Unit = pick(r, []string{"  ", "  ", "    ", "\t", " ", ""})
	l.PExplicit = pick(r, []int{0, 0, 2, 6, 12})
	l.PTrivia = pick(r, []int{0, 1, 3})
	l.PQuote = pick(r, []int{0, 3, 12})
	l.PBlockAnnot = pick(r, []int{0, 4, 12})
	l.PInline = pick(r, []int{0, 0, 0, 8})
	l.PTrail = pick(r, []int{0, 0, 3})
	l.PEolComment = pick(r, []int{0, 0, 2})
	l.NoFinalEOL = chance(r, 1, 5)
	return l
}

// rnd returns a value in [0, n) determined by the seed, the directive and the decision name.
func (l *Layout) rnd(id int, what string, n int) int {
	if n <= 1 {
		return 0
	}
	h := l.Seed ^ 0x9e3779b97f4a7c15
	h = mix(h + uint64(id)*0xbf58476d1ce4e5b9)
	for i := 0; i < len(what); i++ {
		h = mix(h ^ uint64(what[i]))
	}
	return int(mix(h) % uint64(n))
}

func mix(z uint64) uint64 {
	z = (z ^ (z >> 30)) * 0xbf58476d1ce4e5b9
	z = (z ^ (z >> 27)) * 0x94d049bb133111eb
	return z ^ (z >> 31)
}

func (l *Layout) ch(id int, what string, p int) bool {
	return !l.Plain && p > 0 && l.rnd(id, what, 12) < p
}

// lrnd adapts (layout, directive, decision) to the Rnd interface for helpers such as genWords.
type lrnd struct {
	l    *Layout
	id   int
	what string
	n    int
}

func (x *lrnd) Intn(n int) int {
	x.n++
	return x.l.rnd(x.id, fmt.Sprintf("%s#%d", x.what, x.n), n)
}

// Rendered is the result of rendering a directive tree.
type Rendered struct {
	Root  string
	Files map[string][]byte
	Pos   map[int]Pos       // by Dir.ID
	Spans map[string][]Span // expected lexeme stream per file
	// Features counts the layout features that were actually used (for generator-health accounting).
	Features map[string]int
}

type fileBuf struct {
	afterText bool // the previous thing written is a Description text: no trivia may follow directly
	afterBody bool // the previous thing written is a schema / enum / regex body: comments that follow are read by the schema scanner
	name      string
	sb        strings.Builder
	line      int
	spans     []Span
	chain     []ChainLink
}

type renderer struct {
	l     *Layout
	out   *Rendered
	files map[string]*fileBuf
}

func (f *fileBuf) off() int { return f.sb.Len() }

func (rr *renderer) eol(f *fileBuf) {
	f.sb.WriteString(rr.l.EOL)
	f.line++
}

// genCommentText: the text of a one-line '#' comment.  Anything but a line break is allowed in it - further '#'
// characters, annotation signs, parentheses, keywords; it does not begin with '#' ("###" opens a block comment).
func genCommentText(r Rnd) string {
	if !chance(r, 1, 3) {
		return genWords(r, 2)
	}
	n := 1 + r.Intn(3)
	var ss []string
	for i := 0; i < n; i++ {
		ss = append(ss, pick(r, []string{"issue #1", "and #2", "a # b # c", "C#", "## not a block", "x ### y", "// x", "/* y */", "(", ")", "GET /a", "200", "\"q\"", "50%", "alpha"}))
	}
	t := strings.Join(ss, " ")
	return strings.TrimLeft(t, "#")
}

// inlineBlock sometimes writes a "### ... ###" block comment (on one line or over several) where a parameter is about to
// be written: block comments may sit between the tokens of a directive line.
func (rr *renderer) inlineBlock(f *fileBuf, id int, where string) {
	l := rr.l
	if l.Plain || l.PInline == 0 || !l.ch(id, "inline-"+where, l.PInline) {
		return
	}
	x := &lrnd{l: l, id: id, what: "inlinetext-" + where}
	if chance(x, 1, 3) {
		f.sb.WriteString("###" + l.EOL + "  " + genWords(x, 2) + l.EOL + "### ")
		f.line += 2
		rr.out.Features["inline-block-comment-multiline"]++
	} else {
		f.sb.WriteString("### " + genWords(x, 2) + " ### ")
	}
	rr.out.Features["inline-block-comment"]++
}

func quoteParam(s string) string {
	return `"` + strings.ReplaceAll(strings.ReplaceAll(s, `\`, `\\`), `"`, `\"`) + `"`
}

func (rr *renderer) trivia(f *fileBuf, ind string, id int, where string) {
	l := rr.l
	if f.afterText || l.Plain {
		return
	}
	for k := 0; k < 3 && l.ch(id, fmt.Sprintf("trivia-%s-%d", where, k), l.PTrivia); k++ {
		x := &lrnd{l: l, id: id, what: fmt.Sprintf("triviatext-%s-%d", where, k)}
		switch x.Intn(4) {
		case 0:
			// blank line
		case 1:
			// a one-line comment: "# text", "#text", "## text", or nothing but the sign(s) - never three signs in a row
			form := x.Intn(6)
			if f.afterBody {
				// after a schema body the comment belongs to the schema language: "##" is an error there, and a comment
				// that is nothing but "#" swallows the next line (open finding S2) - only "# text" is written
				form = 5
			}
			switch form {
			case 0:
				f.sb.WriteString(ind + "##")
			case 1:
				f.sb.WriteString(ind + "#")
			case 2:
				f.sb.WriteString(ind + "## " + genCommentText(x))
			case 3:
				f.sb.WriteString(ind + "#" + genCommentText(x))
			default:
				f.sb.WriteString(ind + "# " + genCommentText(x))
			}
		case 2:
			f.sb.WriteString(ind + "###" + l.EOL)
			f.line++
			f.sb.WriteString(ind + "block " + genWords(x, 2) + l.EOL)
			f.line++
			f.sb.WriteString(ind + "###")
		case 3:
			f.sb.WriteString(pick(x, []string{" ", "\t", "   "}))
		}
		rr.out.Features["trivia"]++
		rr.eol(f)
	}
}

// triviaSite: trivia at a site inside a directive (before its parenthesis, before its body), rarer than between directives.
func (rr *renderer) triviaSite(f *fileBuf, ind string, id int, where string) {
	if rr.l.Plain || rr.l.PTrivia == 0 || !rr.l.ch(id, "site-"+where, 5) {
		return
	}
	before := rr.out.Features["trivia"]
	rr.trivia(f, ind, id, where)
	if rr.out.Features["trivia"] > before {
		rr.out.Features["trivia-"+where]++
	}
}

func (rr *renderer) indentFor(depth int) string {
	return strings.Repeat(rr.l.Unit, depth)
}

// renderList writes the directives (siblings) at the given depth into file f.
func (rr *renderer) renderList(f *fileBuf, dirs []*Dir, depth int) {
	l := rr.l
	for _, d := range dirs {
		ind := rr.indentFor(depth)
		if d.Kw != "INCLUDE" {
			rr.trivia(f, ind, d.ID, "before")
		}
		if d.Kw == "INCLUDE" {
			// an INCLUDE: the included directives are written to their own file with an arbitrary base depth
			f.afterText = false
			f.afterBody = false
			f.afterBody = false
			f.sb.WriteString(ind)
			kb := f.off()
			f.sb.WriteString("INCLUDE")
			f.spans = append(f.spans, Span{'K', kb, f.off() - 1})
			name := d.Params[0].Text
			txt := name
			if l.ch(d.ID, "incquote", l.PQuote) {
				txt = quoteParam(name)
			}
			line := f.line // the INCLUDE is where its keyword is, whatever comes between the keyword and the file name
			f.sb.WriteString(" ")
			rr.inlineBlock(f, d.ID, "inc")
			pb := f.off()
			f.sb.WriteString(txt)
			f.spans = append(f.spans, Span{'P', pb, f.off() - 1})
			rr.out.Pos[d.ID] = Pos{File: f.name, Line: line, Index: kb, Chain: f.chain}
			rr.eol(f)
			if rr.files[d.IncludeFile] != nil {
				// the same piece included again: the file is written once
				rr.out.Features["include-reused"]++
				continue
			}
			g := rr.file(d.IncludeFile)
			saved := g.chain
			g.chain = append([]ChainLink{{f.name, line}}, f.chain...)
			base := 0
			if !l.Plain {
				base = l.rnd(d.ID, "incbase", 3)
			}
			rr.renderList(g, d.IncludeDirs, base)
			g.chain = saved
			rr.out.Features["include"]++
			continue
		}
		// head line
		f.afterText = false
		f.afterBody = false // from the keyword on the API scanner reads the text again
		f.sb.WriteString(ind)
		kb := f.off()
		f.sb.WriteString(d.Kw)
		f.spans = append(f.spans, Span{'K', kb, f.off() - 1})
		rr.out.Pos[d.ID] = Pos{File: f.name, Line: f.line, Index: kb, Chain: f.chain}
		for pi, p := range d.Params {
			txt := p.Text
			if p.MustQuote || (!p.NoQuote && l.ch(d.ID, fmt.Sprintf("quote%d", pi), l.PQuote)) {
				txt = quoteParam(p.Text)
				if !p.MustQuote {
					rr.out.Features["quoted-param"]++
				}
			}
			sep := " "
			if l.ch(d.ID, fmt.Sprintf("sep%d", pi), 1) {
				sep = pick(&lrnd{l: l, id: d.ID, what: fmt.Sprintf("septext%d", pi)}, []string{"  ", "\t", " \t "})
			}
			f.sb.WriteString(sep)
			rr.inlineBlock(f, d.ID, fmt.Sprintf("p%d", pi))
			pb := f.off()
			f.sb.WriteString(txt)
			f.spans = append(f.spans, Span{'P', pb, f.off() - 1})
		}
		annotated := false
		if d.Annot != "" {
			annotated = true
			lr := &lrnd{l: l, id: d.ID, what: "annotpad"}
			if strings.Contains(d.Annot, "#") || l.ch(d.ID, "blockannot", l.PBlockAnnot) {
				// /* text */ : blanks around the text are optional, the text may continue on the following lines
				txt := d.Annot
				before, after := " ", " "
				if l.PBlockAnnot > 0 && chance(lr, 1, 2) {
					before = pick(lr, []string{"", "", "  ", "\t"})
					after = pick(lr, []string{"", "", "  "})
					if chance(lr, 1, 4) && strings.Contains(txt, " ") {
						i := strings.Index(txt, " ")
						txt = txt[:i] + l.EOL + "   " + txt[i+1:]
						f.line++
						rr.out.Features["block-annotation-multiline"]++
					}
				}
				f.sb.WriteString(pick(lr, []string{" ", " ", "  ", "\t"}) + "/*") // a blank is required: "@t/*" is a bare parameter
				ab := f.off()
				f.sb.WriteString(before + txt + after)
				f.spans = append(f.spans, Span{'A', ab, f.off() - 1})
				f.sb.WriteString("*/")
				rr.out.Features["block-annotation"]++
			} else {
				f.sb.WriteString(" //")
				ab := f.off()
				f.sb.WriteString(pick(lr, []string{" ", " ", "", "  "}) + d.Annot)
				f.spans = append(f.spans, Span{'A', ab, f.off() - 1})
				rr.out.Features["line-annotation"]++
				if l.PEolComment > 0 && chance(lr, 1, 6) {
					// a comment ends the annotation, with or without a blank before the '#'
					f.sb.WriteString(pick(lr, []string{" # ", "# ", " #"}) + genCommentText(lr))
					rr.out.Features["comment-after-annotation"]++
				}
			}
		}
		if !annotated && d.BodyKind != "text" && l.ch(d.ID, "eolcomment", l.PEolComment) {
			f.sb.WriteString(" # " + genWords(&lrnd{l: l, id: d.ID, what: "eolcommenttext"}, 2))
			rr.out.Features["eol-comment"]++
		} else if !annotated && d.BodyKind != "text" && l.ch(d.ID, "trail", l.PTrail) {
			f.sb.WriteString(pick(&lrnd{l: l, id: d.ID, what: "trailtext"}, []string{" ", "  ", "\t"}))
			rr.out.Features["trailing-blank"]++
		}
		rr.eol(f)
		// explicit context?
		explicit := false
		if d.Kw != "Description" {
			switch d.Explicit {
			case "yes":
				explicit = true
			case "no":
			default:
				explicit = len(d.Children) > 0 && l.ch(d.ID, "explicit", l.PExplicit)
				if len(d.Children) == 0 && d.BodyKind != "" && d.BodyKind != "text" && l.PExplicit > 0 && l.rnd(d.ID, "bodyparens", 6) == 0 {
					// a directive without children may still put its body in parentheses
					explicit = true
					rr.out.Features["body-in-parentheses"]++
				}
			}
		}
		textParens := d.Kw == "Description" && l.ch(d.ID, "textparens", l.PExplicit)
		if explicit {
			rr.triviaSite(f, ind, d.ID, "preparen")
			f.sb.WriteString(ind)
			f.spans = append(f.spans, Span{'(', f.off(), f.off()})
			f.sb.WriteString("(")
			rr.eol(f)
			rr.out.Features["explicit-context"]++
		}
		// body
		if d.BodyKind != "" {
			bind := rr.indentFor(depth + 1)
			if !l.Plain && l.rnd(d.ID, "bodyindent", 8) == 0 {
				bind = ind // body not indented deeper than its directive
			}
			if d.BodyKind == "text" {
				if textParens {
					f.sb.WriteString(ind + "(")
					rr.eol(f)
				}
				tb := -1
				// lines of blanks only (shorter or longer than the indentation of the text): before the text, in place of
				// its empty lines, after it
				br := &lrnd{l: l, id: d.ID, what: "textblanks"}
				blanks := func() string { return pick(br, []string{" ", "  ", "\t", bind, bind + "   ", ind + " "}) }
				wsLines := !l.Plain && l.PTrail > 0
				if wsLines && chance(br, 1, 5) {
					f.sb.WriteString(blanks())
					rr.eol(f)
					rr.out.Features["text-blank-only-line"]++
				}
				for _, bl := range d.Body {
					if bl != "" {
						f.sb.WriteString(bind)
					} else if wsLines && chance(br, 1, 2) {
						f.sb.WriteString(blanks())
						rr.out.Features["text-blank-only-line"]++
					}
					if tb < 0 {
						tb = f.off()
					}
					f.sb.WriteString(bl)
					rr.eol(f)
				}
				te := f.off() - len(l.EOL) - 1
				if wsLines && chance(br, 1, 6) {
					f.sb.WriteString(blanks())
					rr.eol(f)
					rr.out.Features["text-blank-only-line"]++
				}
				if textParens {
					f.sb.WriteString(ind + ")")
					te = f.off() - 1
					tb = -2 // extent includes the parentheses; compared loosely
					rr.eol(f)
				}
				f.spans = append(f.spans, Span{'T', tb, te})
				f.afterText = !textParens
			} else {
				// comments and blank lines between the keyword line (or the parenthesis) and the body
				rr.triviaSite(f, bind, d.ID, "prebody")
				code := byte('S')
				if d.BodyKind == "enum" {
					code = 'E'
				}
				if d.BodyKind == "regex" {
					code = 'T' // the scanner reports a regex body as a text lexeme
				}
				bb := -1
				be := -1
				for bi, bl := range d.Body {
					f.sb.WriteString(bind)
					if bb < 0 {
						bb = f.off()
					}
					f.sb.WriteString(bl)
					be = f.off() - 1
					if bi == len(d.Body)-1 && !l.Plain && code != 'T' {
						// blanks and a comment after the last line of a schema / enum body (a blank before '#' is required)
						lr := &lrnd{l: l, id: d.ID, what: "bodytail"}
						if l.ch(d.ID, "bodycomment", l.PEolComment) {
							sep := pick(lr, []string{" ", "  ", "\t"})
							if code == 'S' && chance(lr, 1, 4) {
								sep = "" // a comment may be glued to a schema (not to an enum) body
								rr.out.Features["comment-glued-to-body"]++
							}
							f.sb.WriteString(sep + "# " + genCommentText(lr))
							rr.out.Features["comment-after-body"]++
						} else if l.ch(d.ID, "bodytrail", l.PTrail) {
							f.sb.WriteString(pick(lr, []string{" ", "  ", "\t"}))
							rr.out.Features["blank-after-body"]++
						}
					}
					rr.eol(f)
				}
				f.spans = append(f.spans, Span{code, bb, be})
				f.afterBody = true
			}
		}
		if d.Kw == "Description" && d.BodyKind == "" {
			f.afterText = true // a Description without text (planted fault): a comment written next would become its text
		}
		// children
		rr.renderList(f, d.Children, depth+1)
		if explicit {
			rr.trivia(f, ind, d.ID, "close")
			f.sb.WriteString(ind)
			f.spans = append(f.spans, Span{')', f.off(), f.off()})
			f.sb.WriteString(")")
			rr.eol(f)
		}
	}
}

func (rr *renderer) file(name string) *fileBuf {
	f := rr.files[name]
	if f == nil {
		f = &fileBuf{name: name, line: 1}
		rr.files[name] = f
	}
	return f
}

// Render renders the directive tree.
func Render(dirs []*Dir, l *Layout) *Rendered {
	out := &Rendered{Root: "root.jst", Files: map[string][]byte{}, Pos: map[int]Pos{}, Spans: map[string][]Span{}, Features: map[string]int{}}
	rr := &renderer{l: l, out: out, files: map[string]*fileBuf{}}
	f := rr.file(out.Root)
	rr.renderList(f, dirs, 0)
	names := make([]string, 0, len(rr.files))
	for n := range rr.files {
		names = append(names, n)
	}
	sort.Strings(names)
	for _, n := range names {
		fb := rr.files[n]
		b := []byte(fb.sb.String())
		if l.NoFinalEOL && (n == out.Root || l.rnd(len(n)*31+int(n[0]), "nofinaleol", 2) == 0) && len(b) >= len(l.EOL) {
			// (also some of the included files end without a line break)
			b = b[:len(b)-len(l.EOL)]
		}
		out.Files[n] = b
		out.Spans[n] = fb.spans
	}
	if l.EOL != "\n" {
		out.Features["eol-"+fmt.Sprintf("%q", l.EOL)]++
	}
	return out
}

// Walk visits every directive of the tree (including those behind INCLUDE nodes).
func Walk(dirs []*Dir, f func(d *Dir, parent *Dir)) {
	var rec func(dd []*Dir, p *Dir)
	rec = func(dd []*Dir, p *Dir) {
		for _, d := range dd {
			f(d, p)
			if d.Kw == "INCLUDE" {
				rec(d.IncludeDirs, p)
				continue
			}
			rec(d.Children, d)
		}
	}
	rec(dirs, nil)
}
