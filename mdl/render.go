package mdl

import (
	"fmt"
	"sort"
	"strings"
)

// Span is an expected lexeme: type code (K keyword, P parameter, A annotation, ( ) parentheses, S schema, T text, E enum),
// first and last byte.
type Span struct {
	T    byte
	B, E int
}

// Pos is the position of a directive keyword.
type Pos struct {
	File  string
	Line  int // 1-based
	Index int // byte index of the keyword
	// Chain is the include chain through which the directive is reached, innermost first: (file, line of the INCLUDE)
	Chain []ChainLink
}

type ChainLink struct {
	File string
	Line int
}

// Layout holds the layout decisions of one rendering.  With Plain set no random decision is taken.
type Layout struct {
	R     Rnd
	Plain bool
	EOL   string // "\n", "\r\n", "\r"
	Unit  string // indentation unit
	// probabilities (x/12) of the optional features
	PExplicit, PTrivia, PQuote, PBlockAnnot, PTrail, PEolComment int
	NoFinalEOL                                                   bool
}

func PlainLayout() *Layout { return &Layout{Plain: true, EOL: "\n", Unit: "  "} }

func RandomLayout(r Rnd) *Layout {
	l := &Layout{R: r}
	l.EOL = pick(r, []string{"\n", "\n", "\n", "\r\n", "\r"})
	l.Unit = pick(r, []string{"  ", "  ", "    ", "\t", " ", ""})
	l.PExplicit = pick(r, []int{0, 0, 2, 6, 12})
	l.PTrivia = pick(r, []int{0, 1, 3})
	l.PQuote = pick(r, []int{0, 3, 12})
	l.PBlockAnnot = pick(r, []int{0, 4, 12})
	l.PTrail = pick(r, []int{0, 0, 3})
	l.PEolComment = pick(r, []int{0, 0, 2})
	l.NoFinalEOL = chance(r, 1, 5)
	return l
}

func (l *Layout) ch(p int) bool { return !l.Plain && p > 0 && chance(l.R, p, 12) }

// Rendered is the result of rendering a directive tree.
type Rendered struct {
	Root  string
	Files map[string][]byte
	Pos   map[*Dir]Pos
	Spans map[string][]Span // expected lexeme stream per file
	// Features counts the layout features that were actually used (for generator-health accounting).
	Features map[string]int
}

type fileBuf struct {
	afterText bool // the previous thing written is a Description text: no trivia may follow directly
	name      string
	sb        strings.Builder
	line      int
	spans     []Span
	chain     []ChainLink
}

type renderer struct {
	l     *Layout
	out   *Rendered
	files map[string]*fileBuf
}

func (f *fileBuf) off() int { return f.sb.Len() }

func (rr *renderer) eol(f *fileBuf) {
	f.sb.WriteString(rr.l.EOL)
	f.line++
}

func quoteParam(s string) string {
	return `"` + strings.ReplaceAll(strings.ReplaceAll(s, `\`, `\\`), `"`, `\"`) + `"`
}

func (rr *renderer) trivia(f *fileBuf, ind string) {
	l := rr.l
	if f.afterText {
		return
	}
	for l.ch(l.PTrivia) {
		switch l.R.Intn(4) {
		case 0:
			// blank line
		case 1:
			f.sb.WriteString(ind + "# " + genWords(l.R, 2))
		case 2:
			f.sb.WriteString(ind + "###" + l.EOL)
			f.line++
			f.sb.WriteString(ind + "block " + genWords(l.R, 2) + l.EOL)
			f.line++
			f.sb.WriteString(ind + "###")
		case 3:
			f.sb.WriteString(pick(l.R, []string{" ", "\t", "   "}))
		}
		rr.out.Features["trivia"]++
		rr.eol(f)
	}
}

func (rr *renderer) indentFor(depth int) string {
	return strings.Repeat(rr.l.Unit, depth)
}

// renderList writes the directives (siblings) at the given depth into file f.
func (rr *renderer) renderList(f *fileBuf, dirs []*Dir, depth int) {
	l := rr.l
	for _, d := range dirs {
		ind := rr.indentFor(depth)
		rr.trivia(f, ind)
		if d.Kw == "INCLUDE" {
			// an INCLUDE: the included directives are written to their own file with an arbitrary base depth
			f.afterText = false
			f.sb.WriteString(ind)
			kb := f.off()
			f.sb.WriteString("INCLUDE")
			f.spans = append(f.spans, Span{'K', kb, f.off() - 1})
			name := d.Params[0].Text
			txt := name
			if l.ch(l.PQuote) {
				txt = quoteParam(name)
			}
			f.sb.WriteString(" ")
			pb := f.off()
			f.sb.WriteString(txt)
			f.spans = append(f.spans, Span{'P', pb, f.off() - 1})
			rr.out.Pos[d] = Pos{File: f.name, Line: f.line, Index: kb, Chain: f.chain}
			line := f.line
			rr.eol(f)
			g := rr.file(d.IncludeFile)
			saved := g.chain
			g.chain = append([]ChainLink{{f.name, line}}, f.chain...)
			base := 0
			if !l.Plain {
				base = l.R.Intn(3)
			}
			rr.renderList(g, d.IncludeDirs, base)
			g.chain = saved
			rr.out.Features["include"]++
			continue
		}
		// head line
		f.afterText = false
		f.sb.WriteString(ind)
		kb := f.off()
		f.sb.WriteString(d.Kw)
		f.spans = append(f.spans, Span{'K', kb, f.off() - 1})
		rr.out.Pos[d] = Pos{File: f.name, Line: f.line, Index: kb, Chain: f.chain}
		for _, p := range d.Params {
			txt := p.Text
			if p.MustQuote || (!p.NoQuote && l.ch(l.PQuote)) {
				txt = quoteParam(p.Text)
				if !p.MustQuote {
					rr.out.Features["quoted-param"]++
				}
			}
			sep := " "
			if l.ch(1) {
				sep = pick(l.R, []string{"  ", "\t", " \t "})
			}
			f.sb.WriteString(sep)
			pb := f.off()
			f.sb.WriteString(txt)
			f.spans = append(f.spans, Span{'P', pb, f.off() - 1})
		}
		annotated := false
		if d.Annot != "" {
			annotated = true
			if l.ch(l.PBlockAnnot) {
				f.sb.WriteString(" /*")
				ab := f.off()
				f.sb.WriteString(" " + d.Annot + " ")
				f.spans = append(f.spans, Span{'A', ab, f.off() - 1})
				f.sb.WriteString("*/")
				rr.out.Features["block-annotation"]++
			} else {
				f.sb.WriteString(" //")
				ab := f.off()
				f.sb.WriteString(" " + d.Annot)
				f.spans = append(f.spans, Span{'A', ab, f.off() - 1})
				rr.out.Features["line-annotation"]++
			}
		}
		if !annotated && d.BodyKind != "text" && l.ch(l.PEolComment) {
			f.sb.WriteString(" # " + genWords(l.R, 2))
			rr.out.Features["eol-comment"]++
		} else if !annotated && d.BodyKind != "text" && l.ch(l.PTrail) {
			f.sb.WriteString(pick(l.R, []string{" ", "  ", "\t"}))
			rr.out.Features["trailing-blank"]++
		}
		rr.eol(f)
		// explicit context?
		explicit := false
		if d.Kw != "Description" {
			switch d.Explicit {
			case "yes":
				explicit = true
			case "no":
			default:
				explicit = len(d.Children) > 0 && l.ch(l.PExplicit)
			}
		}
		textParens := d.Kw == "Description" && l.ch(l.PExplicit)
		if explicit {
			f.sb.WriteString(ind)
			f.spans = append(f.spans, Span{'(', f.off(), f.off()})
			f.sb.WriteString("(")
			rr.eol(f)
			rr.out.Features["explicit-context"]++
		}
		// body
		if d.BodyKind != "" {
			bind := rr.indentFor(depth + 1)
			if !l.Plain && chance(l.R, 1, 8) {
				bind = ind // body not indented deeper than its directive
			}
			if d.BodyKind == "text" {
				if textParens {
					f.sb.WriteString(ind + "(")
					rr.eol(f)
				}
				tb := -1
				for _, bl := range d.Body {
					if bl != "" {
						f.sb.WriteString(bind)
					}
					if tb < 0 {
						tb = f.off()
					}
					f.sb.WriteString(bl)
					rr.eol(f)
				}
				te := f.off() - len(l.EOL) - 1
				if textParens {
					f.sb.WriteString(ind + ")")
					te = f.off() - 1
					tb = -2 // extent includes the parentheses; compared loosely
					rr.eol(f)
				}
				f.spans = append(f.spans, Span{'T', tb, te})
				f.afterText = !textParens
			} else {
				code := byte('S')
				if d.BodyKind == "enum" {
					code = 'E'
				}
				bb := -1
				be := -1
				for _, bl := range d.Body {
					f.sb.WriteString(bind)
					if bb < 0 {
						bb = f.off()
					}
					f.sb.WriteString(bl)
					be = f.off() - 1
					rr.eol(f)
				}
				f.spans = append(f.spans, Span{code, bb, be})
			}
		}
		// children
		rr.renderList(f, d.Children, depth+1)
		if explicit {
			rr.trivia(f, ind)
			f.sb.WriteString(ind)
			f.spans = append(f.spans, Span{')', f.off(), f.off()})
			f.sb.WriteString(")")
			rr.eol(f)
		}
	}
}

func (rr *renderer) file(name string) *fileBuf {
	f := rr.files[name]
	if f == nil {
		f = &fileBuf{name: name, line: 1}
		rr.files[name] = f
	}
	return f
}

// Render renders the directive tree.
func Render(dirs []*Dir, l *Layout) *Rendered {
	out := &Rendered{Root: "root.jst", Files: map[string][]byte{}, Pos: map[*Dir]Pos{}, Spans: map[string][]Span{}, Features: map[string]int{}}
	rr := &renderer{l: l, out: out, files: map[string]*fileBuf{}}
	f := rr.file(out.Root)
	rr.renderList(f, dirs, 0)
	names := make([]string, 0, len(rr.files))
	for n := range rr.files {
		names = append(names, n)
	}
	sort.Strings(names)
	for _, n := range names {
		fb := rr.files[n]
		b := []byte(fb.sb.String())
		if l.NoFinalEOL && n == out.Root && len(b) >= len(l.EOL) {
			b = b[:len(b)-len(l.EOL)]
		}
		out.Files[n] = b
		out.Spans[n] = fb.spans
	}
	if l.EOL != "\n" {
		out.Features["eol-"+fmt.Sprintf("%q", l.EOL)]++
	}
	return out
}

// Walk visits every directive of the tree (including those behind INCLUDE nodes).
func Walk(dirs []*Dir, f func(d *Dir, parent *Dir)) {
	var rec func(dd []*Dir, p *Dir)
	rec = func(dd []*Dir, p *Dir) {
		for _, d := range dd {
			f(d, p)
			if d.Kw == "INCLUDE" {
				rec(d.IncludeDirs, p)
				continue
			}
			rec(d.Children, d)
		}
	}
	rec(dirs, nil)
}
